package c19

// Sources of the scratch package: calls.go (what goderive sees; no imports), b/calls.go
// (second package: goderive's name table treats `chan T` and `<-chan T` arguments as the
// same instance, so the send-receive / receive-only twins cannot live in one package) and
// drv.go (the real-runtime driver; build tag drv so that goderive never loads it).

const callsMain = `package main

func callFmap(f func(int) int, in <-chan int) <-chan int { return deriveFmap(f, in) }
func callFmapCC(g func(int) <-chan int, in <-chan int) <-chan (<-chan int) {
	return deriveFmapCC(g, in)
}
func callDup(c chan int) (<-chan int, <-chan int)  { return deriveDup(c) }
func callJoinCC(in <-chan (<-chan int)) <-chan int { return deriveJoinCC(in) }
func callJoinSl(in []<-chan int) <-chan int        { return deriveJoinSl(in) }
func callJoinSlS(in []chan int) <-chan int         { return deriveJoinSlS(in) }
func callJoinV2(c0, c1 chan int) <-chan int        { return deriveJoinV2(c0, c1) }
func callJoinV3(c0, c1, c2 chan int) <-chan int    { return deriveJoinV3(c0, c1, c2) }
func callPipeline(f func([]int) <-chan int, g func(int) <-chan int) func([]int) <-chan int {
	return derivePipeline(f, g)
}
`

const callsB = `package b

func DupR(c <-chan int) (<-chan int, <-chan int) { return deriveDupR(c) }
func JoinCCS(in chan (<-chan int)) <-chan int    { return deriveJoinCCS(in) }
`

// mainStub lets `go vet`/`go build` without the drv tag see a complete package main.
const mainStub = `//go:build !drv

package main

func main() {}
`

// The driver.  Config line:  idx form procs outercap seed n {cap k item*k}*n [env rounds m order*m]
// Output: `START idx` before a run, then one hist line (see c19.go) after it.
const driverSrc = `//go:build drv

package main

import (
	"bufio"
	"fmt"
	"os"
	"runtime"
	"strconv"
	"strings"
	"sync"
	"time"

	"p/b"
)

// splitmix64; one generator per goroutine (never shared)
type rng struct{ s uint64 }

func (r *rng) next() uint64 {
	r.s += 0x9E3779B97F4A7C15
	z := r.s
	z = (z ^ (z >> 30)) * 0xBF58476D1CE4E5B9
	z = (z ^ (z >> 27)) * 0x94D049BB133111EB
	return z ^ (z >> 31)
}

// jitter perturbs the schedule: nothing, a yield, or a tiny sleep.
func (r *rng) jitter() {
	switch r.next() % 8 {
	case 0, 1, 2:
		runtime.Gosched()
	case 3:
		time.Sleep(time.Duration(r.next()%40) * time.Microsecond)
	}
}
func fork(seed uint64, k int) *rng { return &rng{s: seed ^ (uint64(k+1) * 0xD1342543DE82EF95)} }

type input struct {
	cap   int
	items []int
}
type config struct {
	idx, procs, outer int
	form              string
	seed              uint64
	ins               []input
	env, rounds       int   // environment (see start) and number of rounds (burst environments)
	order             []int // feeder environments: the order of the operations on the inputs
}

var kindOf = map[string]string{"fmap": "fmap", "fmap_cc": "fmap", "dup_sr": "dup", "dup_r": "dup",
	"join_cc_r": "joincc", "join_cc_sr": "joincc", "join_sl_r": "joinsl", "join_sl_sr": "joinsl",
	"join_var2": "joinvar", "join_var3": "joinvar", "pipeline": "pipeline",
	// instances over other element types (drv_typed.go)
	"fmap_e": "fmap", "dup_e": "dup", "join_cc_e": "joincc", "join_cc_a": "joincc", "join_sl_e": "joinsl",
	"join_sl_sa": "joinsl", "join_sl_p": "joinsl", "join_var2_e": "joinvar", "join_var3_p": "joinvar", "pipeline_e": "pipeline"}

func ints(l []int) string {
	s := make([]string, len(l))
	for i, x := range l {
		s[i] = strconv.Itoa(x)
	}
	return "(" + strings.Join(s, " ") + ")"
}

// Environments (field env of a configuration):
//   0  one independent producer goroutine per input (and one for the outer channel), seeded jitter
//   1  FEEDER: a single goroutine hands all the channels over (chan-of-chan form), closes the outer
//      channel and then performs every send and close on the inputs in the given order (c.order: one
//      occurrence of j per item of input j plus one for its close): progress on one input depends on
//      another input being served
//   3  LAZY FEEDER: as 1, but channel j is handed over only just before the first operation on it
//      (the combinator must serve the channels it already has while the outer channel is still open)
//   2  BURST, inputs filled and closed before the call (everything finishes at the same moment);
//      no jitter; the configuration is run c.rounds times, the first bad round (else the last) is reported
//   4  BURST, the producers fill their channel, wait for a common start signal given right after the
//      call, and close (all the inputs are closed at nearly the same moment)
//   5  PRODUCERS AHEAD: as 0, but the combinator is called only when every producer has filled the buffer
//      of its channel and is blocked in its next send (a combinator must not forward anything in the
//      caller's goroutine, before it has returned the output nobody can receive from)
//   6  NIL RESULTS (fmap over a function returning a channel): as 0, but the function returns a nil channel
//      for every item divisible by 3; a nil result is an item like any other (reported as 0)
//   7  SHARED CHANNELS (join forms, pipeline): as 0, but the channels are handed over in the sequence c.order
//      in which a channel may occur more than once: twice on the channel of channels, twice in the slice,
//      for two parameters of the variadic form, returned for two different items by the second stage of
//      the pipeline (the inputs of a combinator need not be pairwise distinct)
//   8  ZERO ITEMS: as 0, the item lists contain the zero value of the element type (0 = nil for the
//      instances over error / interface{} / *int, see drv_typed.go); c.order = [element type]
func quietEnv(env int) bool { return env == 2 || env == 4 }

// start builds the environment of one run and calls the combinator.
func start(c config) []<-chan int {
	if typedForm(c.form) {
		return startTyped(c)
	}
	quiet := quietEnv(c.env)
	feeder := c.env == 1 || c.env == 3
	jit := func(r *rng) {
		if !quiet {
			r.jitter()
		}
	}
	barrier := make(chan struct{})
	mk := func(j int) chan int { return make(chan int, c.ins[j].cap) }
	// ahead (env 5): wait (at most 2 ms) until full() holds, then a moment more for the blocked send
	ahead := func(full func() bool) {
		if c.env != 5 {
			return
		}
		dl := time.Now().Add(2 * time.Millisecond)
		for !full() && time.Now().Before(dl) {
			runtime.Gosched()
		}
		time.Sleep(200 * time.Microsecond)
	}
	filled := func(l []chan int) func() bool {
		return func() bool {
			for j, ch := range l {
				if len(ch) < cap(ch) && len(ch) < len(c.ins[j].items) {
					return false
				}
			}
			return true
		}
	}
	produce := func(j int, ch chan int) { // the producer of input j: its items, then close
		if feeder {
			return // the feeder does it
		}
		if c.env == 2 && cap(ch) >= len(c.ins[j].items) {
			for _, x := range c.ins[j].items {
				ch <- x
			}
			close(ch)
			return
		}
		r := fork(c.seed, 10+j)
		go func() {
			for _, x := range c.ins[j].items {
				jit(r)
				ch <- x
			}
			jit(r)
			if c.env == 4 {
				<-barrier
			}
			close(ch)
		}()
	}
	// feeder: one goroutine for the whole environment
	feed := func(l []chan int, hand func(ch chan int), closeOuter func()) {
		r := fork(c.seed, 7)
		go func() {
			next := make([]int, len(l))
			handed, outerClosed := 0, false
			handTo := func(j int) {
				for handed <= j && handed < len(l) {
					r.jitter()
					hand(l[handed])
					handed++
				}
				if handed == len(l) && !outerClosed {
					r.jitter()
					closeOuter()
					outerClosed = true
				}
			}
			if c.env == 1 {
				handTo(len(l) - 1)
			}
			for _, j := range c.order {
				handTo(j)
				r.jitter()
				if next[j] < len(c.ins[j].items) {
					l[j] <- c.ins[j].items[next[j]]
					next[j]++
				} else {
					close(l[j])
				}
			}
			handTo(len(l) - 1)
		}()
	}
	// shared (env 7): the sequence in which the channels are given to the combinator
	shared := func(l []chan int) []chan int {
		if c.env != 7 {
			return l
		}
		r := make([]chan int, len(c.order))
		for i, j := range c.order {
			r[i] = l[j]
		}
		return r
	}
	inputs := func() []chan int {
		l := make([]chan int, len(c.ins))
		for j := range l {
			l[j] = mk(j)
			produce(j, l[j])
		}
		if feeder {
			feed(l, func(chan int) {}, func() {})
		}
		ahead(filled(l))
		return shared(l)
	}
	recvOnly := func(l []chan int) []<-chan int {
		r := make([]<-chan int, len(l))
		for j := range l {
			r[j] = l[j]
		}
		return r
	}
	outer := func() chan (<-chan int) { // channel of channels + its producer
		o := make(chan (<-chan int), c.outer)
		l := make([]chan int, len(c.ins))
		for j := range l {
			l[j] = mk(j)
			produce(j, l[j])
		}
		switch {
		case feeder:
			feed(l, func(ch chan int) { o <- ch }, func() { close(o) })
		case c.env == 2 && cap(o) >= len(l):
			for _, ch := range l {
				o <- ch
			}
			close(o)
		default:
			r := fork(c.seed, 5)
			go func() {
				for _, ch := range shared(l) {
					jit(r)
					o <- ch
				}
				jit(r)
				close(o)
			}()
		}
		ahead(func() bool { return filled(l)() && (len(o) == cap(o) || len(o) == len(l)) })
		return o
	}
	rf := fork(c.seed, 1)
	var oc []<-chan int
	switch c.form {
	case "fmap":
		oc = []<-chan int{callFmap(func(x int) int { jit(rf); return x + 1000 }, inputs()[0])}
	case "fmap_cc": // g(x) = a closed channel holding x+1000; flattened again by the consumer below
		cc := callFmapCC(func(x int) <-chan int {
			jit(rf)
			if c.env == 6 && x%3 == 0 {
				return nil
			}
			ch := make(chan int, 1)
			ch <- x + 1000
			close(ch)
			return ch
		}, inputs()[0])
		flat := make(chan int)
		go func() {
			for ch := range cc {
				if ch == nil {
					flat <- 0
					continue
				}
				for v := range ch {
					flat <- v
				}
			}
			close(flat)
		}()
		oc = []<-chan int{flat}
	case "dup_sr":
		c1, c2 := callDup(inputs()[0])
		oc = []<-chan int{c1, c2}
	case "dup_r":
		c1, c2 := b.DupR(inputs()[0])
		oc = []<-chan int{c1, c2}
	case "join_cc_r":
		oc = []<-chan int{callJoinCC(outer())}
	case "join_cc_sr":
		oc = []<-chan int{b.JoinCCS(outer())}
	case "join_sl_r":
		oc = []<-chan int{callJoinSl(recvOnly(inputs()))}
	case "join_sl_sr":
		oc = []<-chan int{callJoinSlS(inputs())}
	case "join_var2":
		l := inputs()
		oc = []<-chan int{callJoinV2(l[0], l[1])}
	case "join_var3":
		l := inputs()
		oc = []<-chan int{callJoinV3(l[0], l[1], l[2])}
	case "pipeline": // f(a) carries the indexes 0..n-1; g(j) is input j
		f := func(a []int) <-chan int {
			ch := make(chan int, c.outer)
			if c.env == 2 && cap(ch) >= len(a) {
				for _, x := range a {
					ch <- x
				}
				close(ch)
				return ch
			}
			r := fork(c.seed, 5)
			go func() {
				for _, x := range a {
					jit(r)
					ch <- x
				}
				jit(r)
				close(ch)
			}()
			ahead(func() bool { return len(ch) == cap(ch) || len(ch) == len(a) })
			return ch
		}
		var pre []chan int // feeder environments: the channels exist (and are being fed) before g hands them out
		if feeder || c.env == 7 {
			pre = inputs()
		}
		g := func(j int) <-chan int {
			jit(rf)
			if pre != nil {
				return pre[j]
			}
			ch := mk(j)
			produce(j, ch)
			return ch
		}
		idx := make([]int, len(c.ins))
		if pre != nil {
			idx = make([]int, len(pre))
		}
		for j := range idx {
			idx[j] = j
		}
		// the composed function is built once and invoked twice: a first time over no items (drained
		// here), then over the real ones; every invocation must get channels of its own
		pl := callPipeline(f, g)
		for range pl([]int{}) {
		}
		oc = []<-chan int{pl(idx)}
	default:
		panic("unknown form " + c.form)
	}
	close(barrier)
	return oc
}

// consume: one independent goroutine per output, each keeps receiving until its channel is closed.
func consume(c config, oc []<-chan int, timeout time.Duration) (outs [][]int, closed []int, timedout int) {
	quiet := quietEnv(c.env)
	var mu sync.Mutex
	got := make([][]int, len(oc))
	cl := make([]int, len(oc))
	var wg sync.WaitGroup
	for i := range oc {
		wg.Add(1)
		go func(i int) {
			defer wg.Done()
			r := fork(c.seed, 100+i)
			for v := range oc[i] {
				mu.Lock()
				got[i] = append(got[i], v)
				mu.Unlock()
				if !quiet {
					r.jitter()
				}
			}
			mu.Lock()
			cl[i] = 1
			mu.Unlock()
		}(i)
	}
	done := make(chan struct{})
	go func() { wg.Wait(); close(done) }()
	tm := time.NewTimer(timeout)
	select {
	case <-done:
		tm.Stop()
	case <-tm.C:
		timedout = 1
	}
	mu.Lock()
	for i := range got {
		outs = append(outs, append([]int{}, got[i]...))
	}
	closed = append([]int{}, cl...)
	mu.Unlock()
	return
}

func eqInts(a, b []int) bool {
	if len(a) != len(b) {
		return false
	}
	for i := range a {
		if a[i] != b[i] {
			return false
		}
	}
	return true
}

// good: the driver's own (coarse) judgement of one burst round; it only selects WHICH round is reported,
// the reported round is judged by the evaluator like every other history.
func good(c config, outs [][]int, closed []int) bool {
	for _, x := range closed {
		if x != 1 {
			return false
		}
	}
	switch kindOf[c.form] {
	case "fmap":
		want := make([]int, len(c.ins[0].items))
		for i, x := range c.ins[0].items {
			want[i] = x + 1000
		}
		return len(outs) == 1 && eqInts(outs[0], want)
	case "dup":
		return len(outs) == 2 && eqInts(outs[0], c.ins[0].items) && eqInts(outs[1], c.ins[0].items)
	}
	if len(outs) != 1 {
		return false
	}
	pos := make([]int, len(c.ins))
	for _, v := range outs[0] { // the items are pairwise different: greedy matching is exact
		found := false
		for j := range c.ins {
			if pos[j] < len(c.ins[j].items) && c.ins[j].items[pos[j]] == v {
				pos[j]++
				found = true
				break
			}
		}
		if !found {
			return false
		}
	}
	for j := range c.ins {
		if pos[j] != len(c.ins[j].items) {
			return false
		}
	}
	return true
}

func run(c config, timeout time.Duration) (outs [][]int, closed []int, leaked, timedout, rounds int) {
	runtime.GOMAXPROCS(c.procs)
	base := runtime.NumGoroutine()
	n := 1
	if quietEnv(c.env) && c.rounds > 1 {
		n = c.rounds
	}
	nout := 1
	if kindOf[c.form] == "dup" {
		nout = 2
	}
	for k := 0; k < n; k++ {
		// the call itself must return (the combinator may not block in the caller's goroutine)
		called := make(chan []<-chan int, 1)
		go func() { called <- start(c) }()
		tm := time.NewTimer(timeout)
		select {
		case oc := <-called:
			tm.Stop()
			outs, closed, timedout = consume(c, oc, timeout)
		case <-tm.C:
			outs, closed, timedout = make([][]int, nout), make([]int, nout), 1
		}
		rounds = k + 1
		if timedout == 1 || (n > 1 && !good(c, outs, closed)) {
			break
		}
	}
	if timedout == 1 {
		if runtime.NumGoroutine() > base {
			leaked = 1
		}
		return
	}
	// every goroutine of the combinator (and of the environment) must be gone soon
	deadline := time.Now().Add(300 * time.Millisecond)
	for runtime.NumGoroutine() > base {
		if time.Now().After(deadline) {
			leaked = 1
			break
		}
		time.Sleep(100 * time.Microsecond)
	}
	return
}

func main() {
	f, err := os.Open(os.Args[1])
	if err != nil {
		panic(err)
	}
	from, _ := strconv.Atoi(os.Args[2])
	slow, _ := strconv.Atoi(os.Args[3]) // timeouts seen so far (by earlier processes)
	sc := bufio.NewScanner(f)
	sc.Buffer(make([]byte, 1<<20), 1<<24)
	w := bufio.NewWriter(os.Stdout)
	defer w.Flush()
	for sc.Scan() {
		fs := strings.Fields(sc.Text())
		if len(fs) < 6 {
			continue
		}
		n := make([]int, len(fs))
		for i, s := range fs {
			if i != 1 && i != 4 {
				n[i], _ = strconv.Atoi(s)
			}
		}
		c := config{idx: n[0], form: fs[1], procs: n[2], outer: n[3]}
		c.seed, _ = strconv.ParseUint(fs[4], 10, 64)
		if c.idx < from {
			continue
		}
		p := 6
		for j := 0; j < n[5]; j++ {
			in := input{cap: n[p], items: append([]int{}, n[p+2:p+2+n[p+1]]...)}
			c.ins = append(c.ins, in)
			p += 2 + n[p+1]
		}
		if p+2 < len(n) { // env rounds m order*m
			c.env, c.rounds = n[p], n[p+1]
			c.order = append([]int{}, n[p+3:p+3+n[p+2]]...)
		}
		fmt.Fprintf(w, "START %d\n", c.idx)
		w.Flush()
		timeout := 3 * time.Second
		if slow >= 3 { // the tree is failing already: do not spend 3 s on each further config
			timeout = 300 * time.Millisecond
		}
		outs, closed, leaked, timedout, rounds := run(c, timeout)
		slow += timedout
		nvar := 0
		if kindOf[c.form] == "joinvar" {
			nvar = len(c.ins)
			if c.env == 7 {
				nvar = len(c.order)
			}
		}
		var ins, os_ []string
		for _, in := range c.ins {
			ins = append(ins, ints(append([]int{in.cap}, in.items...)))
		}
		for _, o := range outs {
			os_ = append(os_, ints(o))
		}
		hdr := []int{nvar, c.procs, c.outer}
		if c.env != 0 {
			hdr = append(append(hdr, c.env, rounds), c.order...)
		}
		fmt.Fprintf(w, "(hist %s %s (%s) (%s) %s 0 %d %d)\n", kindOf[c.form], ints(hdr),
			strings.Join(ins, " "), strings.Join(os_, " "), ints(closed), leaked, timedout)
		w.Flush()
	}
}
`
