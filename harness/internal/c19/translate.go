package c19

// Translator (T): emitted Go (derived.gen.go) -> Coq terms of type Chan.Expected.fn.
//
// Purely syntactic (go/parser + go/ast) and deliberately strict: every statement form
// outside the whitelist below makes the translation of that function FAIL with a message;
// nothing is guessed.  The layout (variable numbering, pc layout) follows the header of
// coq/theories/Chan/Expected.v and does not depend on identifier names.

import (
	"bytes"
	"fmt"
	"go/ast"
	"go/parser"
	"go/printer"
	"go/token"
	"strconv"
	"strings"
)

// vtype: the little type information needed (Recv vs RecvC, Next, Br, BrNil), by syntax only.
type vtype int

const (
	tItem     vtype = iota // anything that is not one of the kinds below (int, ...)
	tChan                  // chan T / <-chan T, T not a channel
	tChanChan              // channel of channels
	tSlice                 // []chan T
	tBool                  // the ok of a receive
	tWG                    // the sync.WaitGroup of the function
	tFunc                  // a function parameter
	tOther                 // not representable (fails where it matters)
)

func classify(e ast.Expr) vtype {
	switch t := e.(type) {
	case *ast.ParenExpr:
		return classify(t.X)
	case *ast.ChanType:
		switch classify(t.Value) {
		case tItem:
			return tChan
		case tChan:
			return tChanChan
		}
		return tOther
	case *ast.ArrayType:
		if t.Len == nil && classify(t.Elt) == tChan {
			return tSlice
		}
		return tOther
	case *ast.FuncType:
		return tFunc
	case *ast.Ident:
		if t.Name == "bool" {
			return tBool
		}
		return tItem
	case *ast.SelectorExpr, *ast.StarExpr, *ast.InterfaceType:
		return tItem
	}
	return tOther
}

// varObj is a variable of one goroutine template.
type varObj struct {
	name     string
	typ      vtype
	captured bool    // numbered among the captured variables (idx), else among the locals
	idx      int     // position among the captured variables / among the locals
	from     *varObj // captured: the variable of the enclosing template it stands for
	assigned bool    // target of `x = nil` somewhere
	ret      vtype   // tFunc: kind of the result
}

// ins is one IR instruction with symbolic variable operands (numbered when printed).
type ins struct {
	op    string
	vars  []*varObj
	pcs   []int
	sel   []selCase
	child *closure // Spawn
}

type selCase struct {
	c, v, ok *varObj
	pc       int
}

// closure is one goroutine template under construction.
type closure struct {
	parent *closure
	tmpl   int
	caps   []*varObj // captured variables (template 0: parameters then made channels)
	locals []*varObj
	scopes []map[string]*varObj
	code   []ins
	loops  int // loop nesting depth at the current point
}

func (c *closure) num(v *varObj) int {
	if v.captured {
		return v.idx
	}
	return len(c.caps) + v.idx
}

func (c *closure) push() { c.scopes = append(c.scopes, map[string]*varObj{}) }
func (c *closure) pop()  { c.scopes = c.scopes[:len(c.scopes)-1] }

func (c *closure) declare(name string, t vtype) *varObj {
	v := &varObj{name: name, typ: t, idx: len(c.locals)}
	c.locals = append(c.locals, v)
	if name != "" {
		c.scopes[len(c.scopes)-1][name] = v
	}
	return v
}

// lookup resolves an identifier; a variable of an enclosing template becomes a captured
// variable of this one (in order of first use).  The WaitGroup is never captured.
func (c *closure) lookup(name string) *varObj {
	for i := len(c.scopes) - 1; i >= 0; i-- {
		if v, ok := c.scopes[i][name]; ok {
			return v
		}
	}
	if c.parent == nil {
		return nil
	}
	pv := c.parent.lookup(name)
	if pv == nil || pv.typ == tWG || pv.typ == tFunc {
		return pv
	}
	nv := &varObj{name: name, typ: pv.typ, captured: true, idx: len(c.caps), from: pv}
	c.caps = append(c.caps, nv)
	c.scopes[0][name] = nv
	return nv
}

func (c *closure) emit(i ins) int {
	c.code = append(c.code, i)
	return len(c.code) - 1
}

// fnTerm is a translated function.
type fnTerm struct {
	params []string // PChan ...
	outs   []string // CapZero | CapOf k
	nloc   int
	ret    []int
	progs  []string // printed programs
	// shape of the Go signature (for the pipeline check)
	sigFuncFirst bool // parameters are (func, chan)
}

func (f *fnTerm) coq() string {
	ret := make([]string, len(f.ret))
	for i, r := range f.ret {
		ret[i] = strconv.Itoa(r)
	}
	return fmt.Sprintf("{| fn_params := [%s]; fn_outs := [%s]; fn_nloc := %d; fn_ret := [%s];\n     fn_progs := [ %s ] |}",
		strings.Join(f.params, "; "), strings.Join(f.outs, "; "), f.nloc, strings.Join(ret, "; "),
		strings.Join(f.progs, ";\n                   "))
}

// tr translates one function.
type tr struct {
	fset    *token.FileSet
	syncPkg string // local name of the import "sync"
	all     []*closure
	nwg     int
	nfuncs  int // number of function parameters
}

func (t *tr) src(n ast.Node) string {
	var b bytes.Buffer
	printer.Fprint(&b, t.fset, n)
	s := strings.Join(strings.Fields(b.String()), " ")
	if len(s) > 120 {
		s = s[:120] + "..."
	}
	return s
}

func (t *tr) fail(n ast.Node, why string) error {
	return fmt.Errorf("line %d: %s: `%s`", t.fset.Position(n.Pos()).Line, why, t.src(n))
}

func ident(e ast.Expr) (string, bool) {
	id, ok := e.(*ast.Ident)
	if !ok || id.Name == "_" {
		return "", false
	}
	return id.Name, true
}

// variable operand: an identifier that resolves to a variable of one of the given types.
func (t *tr) v(c *closure, e ast.Expr, ctx ast.Node, want ...vtype) (*varObj, error) {
	name, ok := ident(e)
	if !ok {
		return nil, t.fail(ctx, "operand is not a plain identifier")
	}
	v := c.lookup(name)
	if v == nil {
		return nil, t.fail(ctx, "identifier "+name+" is not a variable of the function")
	}
	for _, w := range want {
		if v.typ == w {
			return v, nil
		}
	}
	if len(want) == 0 {
		return v, nil
	}
	return nil, t.fail(ctx, "variable "+name+" has the wrong kind here")
}

func (t *tr) block(c *closure, list []ast.Stmt) error {
	c.push()
	defer c.pop()
	for _, s := range list {
		if err := t.stmt(c, s); err != nil {
			return err
		}
	}
	return nil
}

func isNil(e ast.Expr) bool { id, ok := e.(*ast.Ident); return ok && id.Name == "nil" }

func (t *tr) stmt(c *closure, s ast.Stmt) error {
	switch s := s.(type) {
	case *ast.RangeStmt:
		if s.Tok != token.DEFINE {
			return t.fail(s, "range without :=")
		}
		src, err := t.v(c, s.X, s, tChan, tChanChan, tSlice)
		if err != nil {
			return err
		}
		c.push()
		defer c.pop()
		c.loops++
		defer func() { c.loops-- }()
		var h int
		if src.typ == tSlice { // for _, x := range sl
			if k, ok := s.Key.(*ast.Ident); !ok || k.Name != "_" || s.Value == nil {
				return t.fail(s, "range over a slice must be `for _, x := range s`")
			}
			name, ok := ident(s.Value)
			if !ok {
				return t.fail(s, "range value is not an identifier")
			}
			x := c.declare(name, tChan)
			h = c.emit(ins{op: "Next", vars: []*varObj{src, x}, pcs: []int{0, 0}})
			c.code[h].pcs[0] = h + 1
		} else { // for x := range ch
			name, ok := ident(s.Key)
			if !ok || s.Value != nil {
				return t.fail(s, "range over a channel must be `for x := range ch`")
			}
			op, xt := "Recv", tItem
			if src.typ == tChanChan {
				op, xt = "RecvC", tChan
			}
			x := c.declare(name, xt)
			okv := c.declare("", tBool)
			h = c.emit(ins{op: op, vars: []*varObj{src, x, okv}})
			c.emit(ins{op: "Br", vars: []*varObj{okv}, pcs: []int{h + 2, 0}})
		}
		if err := t.block(c, s.Body.List); err != nil {
			return err
		}
		c.emit(ins{op: "Jmp", pcs: []int{h}})
		exit := len(c.code)
		if src.typ == tSlice {
			c.code[h].pcs[1] = exit
		} else {
			c.code[h+1].pcs[1] = exit
		}
		return nil

	case *ast.ForStmt: // for a != nil || b != nil ... {S}
		if s.Init != nil || s.Post != nil || s.Cond == nil {
			return t.fail(s, "for loop that is not `for a != nil || ... {}`")
		}
		var tests []*varObj
		var walk func(e ast.Expr) error
		walk = func(e ast.Expr) error {
			b, ok := e.(*ast.BinaryExpr)
			if !ok {
				return t.fail(s, "loop condition is not a chain of `x != nil`")
			}
			switch {
			case b.Op == token.LOR:
				if err := walk(b.X); err != nil {
					return err
				}
				return walk(b.Y)
			case b.Op == token.NEQ && isNil(b.Y):
				v, err := t.v(c, b.X, s, tChan, tChanChan)
				if err != nil {
					return err
				}
				tests = append(tests, v)
				return nil
			}
			return t.fail(s, "loop condition is not a chain of `x != nil`")
		}
		if err := walk(s.Cond); err != nil {
			return err
		}
		c.loops++
		defer func() { c.loops-- }()
		h := len(c.code)
		body := h + len(tests)
		for i, v := range tests {
			c.emit(ins{op: "BrNil", vars: []*varObj{v}, pcs: []int{h + i + 1, body}})
		}
		if err := t.block(c, s.Body.List); err != nil {
			return err
		}
		c.emit(ins{op: "Jmp", pcs: []int{h}})
		c.code[body-1].pcs[0] = len(c.code)
		return nil

	case *ast.SelectStmt:
		if len(s.Body.List) == 0 {
			return t.fail(s, "empty select")
		}
		at := c.emit(ins{op: "Select"})
		var cases []selCase
		var jmps []int
		for _, cl := range s.Body.List {
			cc := cl.(*ast.CommClause)
			as, ok := cc.Comm.(*ast.AssignStmt)
			if !ok || as.Tok != token.DEFINE || len(as.Lhs) != 2 || len(as.Rhs) != 1 {
				return t.fail(cl, "select case that is not `case v, ok := <-c`")
			}
			u, ok := as.Rhs[0].(*ast.UnaryExpr)
			if !ok || u.Op != token.ARROW {
				return t.fail(cl, "select case that is not `case v, ok := <-c`")
			}
			ch, err := t.v(c, u.X, cc.Comm, tChan)
			if err != nil {
				return err
			}
			vn, ok1 := ident(as.Lhs[0])
			on, ok2 := ident(as.Lhs[1])
			if !ok1 || !ok2 {
				return t.fail(cc.Comm, "select case must name both v and ok")
			}
			c.push()
			vv := c.declare(vn, tItem)
			ov := c.declare(on, tBool)
			cases = append(cases, selCase{ch, vv, ov, len(c.code)})
			err = t.block(c, cc.Body)
			c.pop()
			if err != nil {
				return err
			}
			jmps = append(jmps, c.emit(ins{op: "Jmp", pcs: []int{0}}))
		}
		for _, j := range jmps {
			c.code[j].pcs[0] = len(c.code)
		}
		c.code[at].sel = cases
		return nil

	case *ast.IfStmt:
		if s.Init != nil {
			return t.fail(s, "if with an init statement")
		}
		neg, cond := false, s.Cond
		if u, ok := cond.(*ast.UnaryExpr); ok && u.Op == token.NOT {
			neg, cond = true, u.X
		}
		b, err := t.v(c, cond, s, tBool)
		if err != nil {
			return err
		}
		var elseList []ast.Stmt
		if s.Else != nil {
			eb, ok := s.Else.(*ast.BlockStmt)
			if !ok {
				return t.fail(s, "else-if")
			}
			elseList = eb.List
		}
		// Br b pt pf ; A ; [Jmp end ; B] ; end   (pA = br+1)
		br := c.emit(ins{op: "Br", vars: []*varObj{b}, pcs: []int{0, 0}})
		if err := t.block(c, s.Body.List); err != nil {
			return err
		}
		other := len(c.code)
		if s.Else != nil {
			j := c.emit(ins{op: "Jmp", pcs: []int{0}})
			other = len(c.code)
			if err := t.block(c, elseList); err != nil {
				return err
			}
			c.code[j].pcs[0] = len(c.code)
		}
		if neg { // if !b {A} else {B}: true -> B
			c.code[br].pcs = []int{other, br + 1}
		} else {
			c.code[br].pcs = []int{br + 1, other}
		}
		return nil

	case *ast.AssignStmt:
		if len(s.Lhs) != 1 || len(s.Rhs) != 1 {
			return t.fail(s, "assignment with several operands")
		}
		if s.Tok == token.ASSIGN { // C = nil
			if !isNil(s.Rhs[0]) {
				return t.fail(s, "assignment other than `c = nil`")
			}
			v, err := t.v(c, s.Lhs[0], s, tChan, tChanChan)
			if err != nil {
				return err
			}
			for w := v; w != nil; w = w.from {
				w.assigned = true
			}
			c.emit(ins{op: "SetNil", vars: []*varObj{v}})
			return nil
		}
		if s.Tok != token.DEFINE {
			return t.fail(s, "assignment operator outside the whitelist")
		}
		y, ok := ident(s.Lhs[0])
		if !ok {
			return t.fail(s, "left-hand side is not an identifier")
		}
		switch r := s.Rhs[0].(type) {
		case *ast.CompositeLit: // W := sync.WaitGroup{}
			se, ok := r.Type.(*ast.SelectorExpr)
			if !ok || len(r.Elts) != 0 || se.Sel.Name != "WaitGroup" {
				return t.fail(s, "composite literal other than sync.WaitGroup{}")
			}
			if p, ok := se.X.(*ast.Ident); !ok || p.Name != t.syncPkg || c.lookup(p.Name) != nil {
				return t.fail(s, "composite literal other than sync.WaitGroup{}")
			}
			t.nwg++
			if t.nwg > 1 || c.tmpl != 0 || c.loops != 0 {
				return t.fail(s, "more than one WaitGroup (or one declared in a loop / nested goroutine): the IR has a single WaitGroup per call")
			}
			c.scopes[len(c.scopes)-1][y] = &varObj{name: y, typ: tWG}
			return nil
		case *ast.CallExpr: // y := F(x)
			fn, ok := r.Fun.(*ast.Ident)
			if !ok || len(r.Args) != 1 || r.Ellipsis.IsValid() {
				return t.fail(s, "call other than y := f(x)")
			}
			fv := c.lookup(fn.Name)
			if fv == nil || fv.typ != tFunc || t.nfuncs != 1 {
				return t.fail(s, "callee is not the (single) function parameter")
			}
			x, err := t.v(c, r.Args[0], s)
			if err != nil {
				return err
			}
			if fv.ret == tOther {
				return t.fail(s, "result kind of the function parameter is not representable")
			}
			yv := c.declare(y, fv.ret)
			c.emit(ins{op: "App", vars: []*varObj{yv, x}})
			return nil
		case *ast.Ident: // y := x
			x, err := t.v(c, r, s, tItem, tChan, tChanChan, tBool)
			if err != nil {
				return err
			}
			yv := c.declare(y, x.typ)
			c.emit(ins{op: "Mov", vars: []*varObj{yv, x}})
			return nil
		}
		return t.fail(s, "right-hand side outside the whitelist")

	case *ast.SendStmt:
		ch, err := t.v(c, s.Chan, s, tChan, tChanChan)
		if err != nil {
			return err
		}
		want := tItem
		if ch.typ == tChanChan {
			want = tChan
		}
		x, err := t.v(c, s.Value, s, want)
		if err != nil {
			return err
		}
		c.emit(ins{op: "Send", vars: []*varObj{ch, x}})
		return nil

	case *ast.ExprStmt:
		call, ok := s.X.(*ast.CallExpr)
		if !ok || call.Ellipsis.IsValid() {
			return t.fail(s, "expression statement outside the whitelist")
		}
		if fn, ok := call.Fun.(*ast.Ident); ok && fn.Name == "close" && len(call.Args) == 1 && c.lookup("close") == nil {
			ch, err := t.v(c, call.Args[0], s, tChan, tChanChan)
			if err != nil {
				return err
			}
			c.emit(ins{op: "Close", vars: []*varObj{ch}})
			return nil
		}
		if se, ok := call.Fun.(*ast.SelectorExpr); ok {
			if _, err := t.v(c, se.X, s, tWG); err != nil {
				return err
			}
			switch {
			case se.Sel.Name == "Add" && len(call.Args) == 1:
				if l, ok := call.Args[0].(*ast.BasicLit); ok && l.Kind == token.INT && l.Value == "1" {
					c.emit(ins{op: "WgAdd"})
					return nil
				}
			case se.Sel.Name == "Done" && len(call.Args) == 0:
				c.emit(ins{op: "WgDone"})
				return nil
			case se.Sel.Name == "Wait" && len(call.Args) == 0:
				c.emit(ins{op: "WgWait"})
				return nil
			}
		}
		return t.fail(s, "call outside the whitelist")

	case *ast.GoStmt:
		lit, ok := s.Call.Fun.(*ast.FuncLit)
		if !ok || len(s.Call.Args) != 0 || lit.Type.Params.NumFields() != 0 || lit.Type.Results.NumFields() != 0 {
			return t.fail(s, "go statement that is not `go func(){...}()`")
		}
		child := &closure{parent: c, tmpl: len(t.all)}
		t.all = append(t.all, child)
		child.push() // scope of the captured variables
		c.emit(ins{op: "Spawn", child: child})
		if err := t.block(child, lit.Body.List); err != nil {
			return err
		}
		child.emit(ins{op: "Halt"})
		return nil
	}
	return t.fail(s, fmt.Sprintf("statement form outside the whitelist (%T)", s))
}

func (t *tr) printProg(c *closure) string {
	var out []string
	n := func(v *varObj) string { return strconv.Itoa(c.num(v)) }
	for _, i := range c.code {
		var a []string
		switch i.op {
		case "Select":
			var cs []string
			for _, k := range i.sel {
				cs = append(cs, fmt.Sprintf("(%s,%s,%s,%d)", n(k.c), n(k.v), n(k.ok), k.pc))
			}
			a = append(a, "["+strings.Join(cs, "; ")+"]")
		case "Spawn":
			var bs []string
			for _, cv := range i.child.caps {
				bs = append(bs, n(cv.from))
			}
			a = append(a, strconv.Itoa(i.child.tmpl), "["+strings.Join(bs, "; ")+"]", strconv.Itoa(len(i.child.locals)))
		default:
			for _, v := range i.vars {
				a = append(a, n(v))
			}
			for _, p := range i.pcs {
				a = append(a, strconv.Itoa(p))
			}
		}
		out = append(out, strings.TrimSpace(i.op+" "+strings.Join(a, " ")))
	}
	return "[" + strings.Join(out, "; ") + "]"
}

// translateFunc: `outs := make...; go func(){...}(); return outs`.
func translateFunc(fset *token.FileSet, syncPkg string, fd *ast.FuncDecl) (*fnTerm, error) {
	t := &tr{fset: fset, syncPkg: syncPkg}
	res := &fnTerm{}
	main := &closure{}
	t.all = []*closure{main}
	main.push()
	if fd.Recv != nil || fd.Type.TypeParams != nil || fd.Body == nil {
		return nil, t.fail(fd, "not a plain function")
	}
	addCap := func(name string, ty vtype) *varObj {
		v := &varObj{name: name, typ: ty, captured: true, idx: len(main.caps)}
		main.caps = append(main.caps, v)
		main.scopes[0][name] = v
		return v
	}
	var kinds []vtype
	for _, fl := range fd.Type.Params.List {
		ty := classify(fl.Type)
		if len(fl.Names) == 0 {
			return nil, t.fail(fd, "unnamed parameter")
		}
		for _, nm := range fl.Names {
			kinds = append(kinds, ty)
			switch ty {
			case tFunc:
				ft := fl.Type.(*ast.FuncType)
				ret := tOther
				if ft.Results.NumFields() == 1 && ft.Params.NumFields() == 1 {
					ret = classify(ft.Results.List[0].Type)
					if ret != tItem && ret != tChan {
						ret = tOther
					}
				}
				main.scopes[0][nm.Name] = &varObj{name: nm.Name, typ: tFunc, ret: ret}
				t.nfuncs++
			case tChan:
				res.params = append(res.params, "PChan")
				addCap(nm.Name, ty)
			case tChanChan:
				res.params = append(res.params, "PChanChan")
				addCap(nm.Name, ty)
			case tSlice:
				res.params = append(res.params, "PSliceChan")
				addCap(nm.Name, ty)
			default:
				return nil, t.fail(fd, "parameter "+nm.Name+" is neither a function, a channel, a channel of channels nor a slice of channels")
			}
		}
	}
	res.sigFuncFirst = len(kinds) == 2 && kinds[0] == tFunc && kinds[1] == tChan
	nparams := len(main.caps)
	body := fd.Body.List
	if len(body) != 3 {
		return nil, t.fail(fd, fmt.Sprintf("function body has %d statements, expected `outs := make(...); go func(){...}(); return outs`", len(body)))
	}
	// 1. the made channels
	mk, ok := body[0].(*ast.AssignStmt)
	if !ok || mk.Tok != token.DEFINE || len(mk.Lhs) != len(mk.Rhs) {
		return nil, t.fail(body[0], "first statement is not `x[, y] := make(chan T[, cap(p)])[, make(...)]`")
	}
	for i, rhs := range mk.Rhs {
		name, ok1 := ident(mk.Lhs[i])
		call, ok2 := rhs.(*ast.CallExpr)
		if !ok1 || !ok2 || len(call.Args) < 1 || len(call.Args) > 2 {
			return nil, t.fail(body[0], "first statement is not a list of make(chan T[, cap(p)])")
		}
		if f, ok := call.Fun.(*ast.Ident); !ok || f.Name != "make" || main.lookup("make") != nil {
			return nil, t.fail(body[0], "first statement is not a list of make(chan T[, cap(p)])")
		}
		ty := classify(call.Args[0])
		if _, isChan := call.Args[0].(*ast.ChanType); !isChan || (ty != tChan && ty != tChanChan) {
			return nil, t.fail(body[0], "made value is not a channel")
		}
		spec := "CapZero"
		if len(call.Args) == 2 {
			cc, ok := call.Args[1].(*ast.CallExpr)
			if !ok || len(cc.Args) != 1 {
				return nil, t.fail(body[0], "capacity is not cap(parameter)")
			}
			if f, ok := cc.Fun.(*ast.Ident); !ok || f.Name != "cap" || main.lookup("cap") != nil {
				return nil, t.fail(body[0], "capacity is not cap(parameter)")
			}
			pn, _ := ident(cc.Args[0])
			pv := main.scopes[0][pn]
			if pv == nil || !pv.captured || pv.idx >= nparams || (pv.typ != tChan && pv.typ != tChanChan) {
				return nil, t.fail(body[0], "capacity is not cap(channel parameter)")
			}
			spec = fmt.Sprintf("CapOf %d", pv.idx)
		}
		res.outs = append(res.outs, spec)
		if main.scopes[0][name] != nil {
			return nil, t.fail(body[0], "made channel shadows a parameter")
		}
		addCap(name, ty)
	}
	// 2. the goroutine
	g, ok := body[1].(*ast.GoStmt)
	if !ok {
		return nil, t.fail(body[1], "second statement is not `go func(){...}()`")
	}
	lit, ok := g.Call.Fun.(*ast.FuncLit)
	if !ok || len(g.Call.Args) != 0 || lit.Type.Params.NumFields() != 0 || lit.Type.Results.NumFields() != 0 {
		return nil, t.fail(body[1], "second statement is not `go func(){...}()`")
	}
	if err := t.block(main, lit.Body.List); err != nil {
		return nil, err
	}
	main.emit(ins{op: "Halt"})
	// 3. return of the made channels
	ret, ok := body[2].(*ast.ReturnStmt)
	if !ok || len(ret.Results) == 0 {
		return nil, t.fail(body[2], "third statement is not `return <made channels>`")
	}
	for _, e := range ret.Results {
		n, _ := ident(e)
		v := main.scopes[0][n]
		if v == nil || !v.captured || v.idx < nparams {
			return nil, t.fail(body[2], "returned value is not one of the made channels")
		}
		res.ret = append(res.ret, v.idx)
	}
	// a variable captured by a nested goroutine must never be assigned (copy = reference)
	for _, c := range t.all[1:] {
		for _, cv := range c.caps {
			for w := cv; w != nil; w = w.from {
				if w.assigned {
					return nil, t.fail(fd, "variable "+cv.name+" is captured by a nested goroutine and assigned elsewhere")
				}
			}
		}
	}
	res.nloc = len(main.locals)
	for _, c := range t.all {
		res.progs = append(res.progs, t.printProg(c))
	}
	return res, nil
}

// genFile is one parsed derived.gen.go.
type genFile struct {
	fset    *token.FileSet
	src     []byte
	funcs   map[string]*ast.FuncDecl
	syncPkg string
	terms   map[string]*fnTerm
	errs    map[string]error
}

func parseGen(path string, src []byte) (*genFile, error) {
	fset := token.NewFileSet()
	f, err := parser.ParseFile(fset, path, src, 0)
	if err != nil {
		return nil, err
	}
	g := &genFile{fset: fset, src: src, funcs: map[string]*ast.FuncDecl{}, syncPkg: "sync",
		terms: map[string]*fnTerm{}, errs: map[string]error{}}
	for _, im := range f.Imports {
		if im.Path.Value == `"sync"` && im.Name != nil {
			g.syncPkg = im.Name.Name
		}
	}
	for _, d := range f.Decls {
		if fd, ok := d.(*ast.FuncDecl); ok && fd.Recv == nil {
			g.funcs[fd.Name.Name] = fd
		}
	}
	return g, nil
}

func (g *genFile) source(name string) string {
	fd := g.funcs[name]
	if fd == nil {
		return ""
	}
	return string(g.src[g.fset.Position(fd.Pos()).Offset:g.fset.Position(fd.End()).Offset])
}

func (g *genFile) translate(name string) (*fnTerm, error) {
	if t, ok := g.terms[name]; ok {
		return t, g.errs[name]
	}
	fd := g.funcs[name]
	var t *fnTerm
	var err error
	if fd == nil {
		err = fmt.Errorf("function %s was not generated", name)
	} else {
		func() {
			defer func() { // a bug of the translator must not take the battery down with it
				if r := recover(); r != nil {
					t, err = nil, fmt.Errorf("translator panicked: %v", r)
				}
			}()
			t, err = translateFunc(g.fset, g.syncPkg, fd)
		}()
	}
	g.terms[name], g.errs[name] = t, err
	return t, err
}

// pipeline checks `return func(a T) R { b := f(a); return J(M(g, b)) }` and returns J, M.
func (g *genFile) pipeline(name string) (j, m string, err error) {
	fd := g.funcs[name]
	if fd == nil {
		return "", "", fmt.Errorf("function %s was not generated", name)
	}
	t := &tr{fset: g.fset}
	bad := func(n ast.Node, why string) (string, string, error) { return "", "", t.fail(n, why) }
	var ps []string
	for _, fl := range fd.Type.Params.List {
		if classify(fl.Type) != tFunc {
			return bad(fd, "pipeline parameter is not a function")
		}
		for _, n := range fl.Names {
			ps = append(ps, n.Name)
		}
	}
	if len(ps) != 2 || fd.Body == nil || len(fd.Body.List) != 1 {
		return bad(fd, "pipeline is not `func(f, g) { return func(a) {...} }`")
	}
	ret, ok := fd.Body.List[0].(*ast.ReturnStmt)
	if !ok || len(ret.Results) != 1 {
		return bad(fd.Body.List[0], "pipeline body is not a single return")
	}
	lit, ok := ret.Results[0].(*ast.FuncLit)
	if !ok || lit.Type.Params.NumFields() != 1 || len(lit.Type.Params.List[0].Names) != 1 || len(lit.Body.List) != 2 {
		return bad(ret, "pipeline does not return `func(a T) R { b := f(a); return J(M(g, b)) }`")
	}
	a := lit.Type.Params.List[0].Names[0].Name
	isCall := func(e ast.Expr, nargs int) (string, []ast.Expr, bool) {
		c, ok := e.(*ast.CallExpr)
		if !ok || len(c.Args) != nargs || c.Ellipsis.IsValid() {
			return "", nil, false
		}
		f, ok := c.Fun.(*ast.Ident)
		if !ok {
			return "", nil, false
		}
		return f.Name, c.Args, true
	}
	isId := func(e ast.Expr, name string) bool { id, ok := e.(*ast.Ident); return ok && id.Name == name }
	as, ok := lit.Body.List[0].(*ast.AssignStmt)
	if !ok || as.Tok != token.DEFINE || len(as.Lhs) != 1 || len(as.Rhs) != 1 {
		return bad(lit.Body.List[0], "first statement of the pipeline closure is not `b := f(a)`")
	}
	bname, ok := ident(as.Lhs[0])
	fn, args, ok2 := isCall(as.Rhs[0], 1)
	if !ok || !ok2 || fn != ps[0] || !isId(args[0], a) || bname == ps[1] {
		return bad(as, "first statement of the pipeline closure is not `b := f(a)`")
	}
	r2, ok := lit.Body.List[1].(*ast.ReturnStmt)
	if !ok || len(r2.Results) != 1 {
		return bad(lit.Body.List[1], "second statement of the pipeline closure is not `return J(M(g, b))`")
	}
	j, jargs, ok := isCall(r2.Results[0], 1)
	if !ok {
		return bad(r2, "second statement of the pipeline closure is not `return J(M(g, b))`")
	}
	m, margs, ok := isCall(jargs[0], 2)
	if !ok || !isId(margs[0], ps[1]) || !isId(margs[1], bname) {
		return bad(r2, "second statement of the pipeline closure is not `return J(M(g, b))`")
	}
	for _, n := range []string{j, m} {
		if n == a || n == bname || n == ps[0] || n == ps[1] || g.funcs[n] == nil {
			return bad(r2, n+" is not a generated function of the same file")
		}
	}
	jt, err := g.translate(j)
	if err != nil {
		return "", "", fmt.Errorf("pipeline callee %s: %v", j, err)
	}
	mt, err := g.translate(m)
	if err != nil {
		return "", "", fmt.Errorf("pipeline callee %s: %v", m, err)
	}
	if len(jt.params) != 1 || jt.params[0] != "PChanChan" {
		return bad(r2, j+" does not take a channel of channels")
	}
	if !mt.sigFuncFirst || len(mt.params) != 1 || mt.params[0] != "PChan" {
		return bad(r2, m+" is not an fmap over a channel")
	}
	return j, m, nil
}
