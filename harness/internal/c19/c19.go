// Package c19: correspondence harness of C19 (stub: replaced when C19 is built).
package c19

import (
	"fmt"

	"verifharness/internal/hx"
)

func Run(cfg hx.Config) (*hx.Meta, error) {
	return nil, fmt.Errorf("C19: harness not built yet")
}
