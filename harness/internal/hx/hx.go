// Package hx holds what every property harness shares: the PRNG, scratch modules,
// running goderive / go build / drivers under limits, and s-expression output.
package hx

import (
	"bytes"
	"context"
	"encoding/json"
	"fmt"
	"os"
	"os/exec"
	"path/filepath"
	"sort"
	"strings"
	"sync"
	"time"
)

// Config is what bin/check hands to every property harness.
type Config struct {
	Goderive string // goderive binary built from the repository under test (no build tag)
	Repo     string // source tree of the repository under test
	Work     string // scratch directory
	Out      string // observation files + meta.json
	Seed     uint64
	Tier     string // quick | thorough
	Corpus   string // /verif/corpus/<ID>
	Verif    string // the /verif tree
}

// ---------- PRNG: one splitmix64 state; every random choice derives from it ----------

type Rand struct{ s uint64 }

func NewRand(seed uint64) *Rand { return &Rand{s: seed*0x9E3779B97F4A7C15 + 0x1234567} }

func (r *Rand) U64() uint64 {
	r.s += 0x9E3779B97F4A7C15
	z := r.s
	z = (z ^ (z >> 30)) * 0xBF58476D1CE4E5B9
	z = (z ^ (z >> 27)) * 0x94D049BB133111EB
	return z ^ (z >> 31)
}
func (r *Rand) Intn(n int) int {
	if n <= 0 {
		return 0
	}
	return int(r.U64() % uint64(n))
}
func (r *Rand) Bool() bool { return r.U64()&1 == 1 }

// Fork derives an independent stream (for parallel workers) deterministically.
func (r *Rand) Fork(k uint64) *Rand { return NewRand(r.U64() ^ (k * 0xD1342543DE82EF95)) }

func Shuffle[T any](r *Rand, l []T) {
	for i := len(l) - 1; i > 0; i-- {
		j := r.Intn(i + 1)
		l[i], l[j] = l[j], l[i]
	}
}
func Pick[T any](r *Rand, l []T) T { return l[r.Intn(len(l))] }

// ---------- environment ----------

// GoEnv is the environment for every go / goderive process (see memory: GOTOOLCHAIN and
// GOSUMDB must stay unset for /repo's go 1.24 directive).
func GoEnv() []string {
	env := []string{}
	for _, kv := range os.Environ() {
		if strings.HasPrefix(kv, "GOFLAGS=") || strings.HasPrefix(kv, "GOPROXY=") ||
			strings.HasPrefix(kv, "GOTOOLCHAIN=") || strings.HasPrefix(kv, "GOSUMDB=") ||
			strings.HasPrefix(kv, "GO111MODULE=") || strings.HasPrefix(kv, "GOPATH=") {
			continue
		}
		env = append(env, kv)
	}
	env = append(env, "GOFLAGS=-mod=mod", "GOPROXY=off", "GO111MODULE=on")
	return env
}

type RunResult struct {
	Exit     int
	Out      string // stdout+stderr
	Stdout   string
	TimedOut bool
	Dur      time.Duration
}

// Run runs a command under a wall-clock timeout and an address-space limit (KB; 0 = none).
func Run(dir string, timeout time.Duration, vmemKB int, env []string, name string, args ...string) RunResult {
	ctx, cancel := context.WithTimeout(context.Background(), timeout)
	defer cancel()
	var cmd *exec.Cmd
	if vmemKB > 0 {
		sh := fmt.Sprintf("ulimit -v %d; exec \"$0\" \"$@\"", vmemKB)
		cmd = exec.CommandContext(ctx, "sh", append([]string{"-c", sh, name}, args...)...)
	} else {
		cmd = exec.CommandContext(ctx, name, args...)
	}
	cmd.Dir = dir
	if env != nil {
		cmd.Env = env
	}
	var both, so bytes.Buffer
	cmd.Stdout = &multi{&so, &both}
	cmd.Stderr = &both
	cmd.WaitDelay = 2 * time.Second
	t0 := time.Now()
	err := cmd.Run()
	res := RunResult{Out: both.String(), Stdout: so.String(), Dur: time.Since(t0)}
	if ctx.Err() == context.DeadlineExceeded {
		res.TimedOut = true
		res.Exit = -1
		return res
	}
	if err != nil {
		if ee, ok := err.(*exec.ExitError); ok {
			res.Exit = ee.ExitCode()
		} else {
			res.Exit = -2
			res.Out += "\n" + err.Error()
		}
	}
	return res
}

type multi struct{ a, b *bytes.Buffer }

var mu sync.Mutex

func (m *multi) Write(p []byte) (int, error) {
	mu.Lock()
	defer mu.Unlock()
	m.a.Write(p)
	m.b.Write(p)
	return len(p), nil
}

// Goderive runs the freshly built goderive binary in dir (always under limits: C09).
func Goderive(bin, dir string, args ...string) RunResult {
	return Run(dir, 30*time.Second, 3000000, GoEnv(), bin, args...)
}

// Module writes go.mod for a scratch module named p.
func Module(dir string) error {
	if err := os.MkdirAll(dir, 0o755); err != nil {
		return err
	}
	return os.WriteFile(filepath.Join(dir, "go.mod"), []byte("module p\n\ngo 1.24\n"), 0o644)
}

func WriteFiles(dir string, files map[string]string) error {
	for name, text := range files {
		p := filepath.Join(dir, name)
		if err := os.MkdirAll(filepath.Dir(p), 0o755); err != nil {
			return err
		}
		if err := os.WriteFile(p, []byte(text), 0o644); err != nil {
			return err
		}
	}
	return nil
}

func GoBuild(dir, out string, tags string, pkgs ...string) RunResult {
	args := []string{"build", "-o", out}
	if tags != "" {
		args = append(args, "-tags", tags)
	}
	if len(pkgs) == 0 {
		pkgs = []string{"."}
	}
	args = append(args, pkgs...)
	return Run(dir, 10*time.Minute, 0, GoEnv(), "go", args...)
}

func GoVet(dir string, tags string, pkgs ...string) RunResult {
	args := []string{"vet"}
	if tags != "" {
		args = append(args, "-tags", tags)
	}
	if len(pkgs) == 0 {
		pkgs = []string{"."}
	}
	args = append(args, pkgs...)
	return Run(dir, 10*time.Minute, 0, GoEnv(), "go", args...)
}

// ---------- s-expressions ----------

func Ints(l []int) string {
	var b strings.Builder
	b.WriteByte('(')
	for i, x := range l {
		if i > 0 {
			b.WriteByte(' ')
		}
		fmt.Fprintf(&b, "%d", x)
	}
	b.WriteByte(')')
	return b.String()
}

func Bytes(s []byte) string {
	var b strings.Builder
	b.WriteByte('(')
	for i, x := range s {
		if i > 0 {
			b.WriteByte(' ')
		}
		fmt.Fprintf(&b, "%d", x)
	}
	b.WriteByte(')')
	return b.String()
}

// ---------- run metadata handed back to bin/check ----------

type Meta struct {
	Property     string         `json:"property"`
	Seed         uint64         `json:"seed"`
	Tier         string         `json:"tier"`
	ObsFiles     []string       `json:"obs_files"`
	Packages     int            `json:"packages"`
	GoderiveRuns int            `json:"goderive_runs"`
	Cases        int            `json:"cases"`
	Distribution map[string]int `json:"distribution"`
	Samples      []string       `json:"samples"`
	// Direct findings of the harness itself (not needing the model): each is a replayable record.
	Direct []Direct `json:"direct"`
	Notes  []string `json:"notes"`
}

// Direct is a violation (or a classified known finding candidate) established by the harness
// without the evaluator, e.g. "goderive exit 0 but go vet fails".
type Direct struct {
	Class  string            `json:"class"`  // stable class key, matched against known_findings.json
	What   string            `json:"what"`   // one line
	Files  map[string]string `json:"files"`  // sources to replay
	Cmd    string            `json:"cmd"`    // how it was run
	Output string            `json:"output"` // what was observed
}

func (m *Meta) Count(key string) {
	if m.Distribution == nil {
		m.Distribution = map[string]int{}
	}
	m.Distribution[key]++
}

var metaMu sync.Mutex

func (m *Meta) CountSafe(key string) { metaMu.Lock(); m.Count(key); metaMu.Unlock() }
func (m *Meta) AddDirect(d Direct)   { metaMu.Lock(); m.Direct = append(m.Direct, d); metaMu.Unlock() }
func (m *Meta) Sample(s string) {
	metaMu.Lock()
	if len(m.Samples) < 8 {
		m.Samples = append(m.Samples, s)
	}
	metaMu.Unlock()
}

func (m *Meta) Write(path string) error {
	sort.Strings(m.ObsFiles)
	b, err := json.MarshalIndent(m, "", " ")
	if err != nil {
		return err
	}
	return os.WriteFile(path, b, 0o644)
}

// Parallel runs f(i) for i in [0,n) on up to w workers.
func Parallel(n, w int, f func(i int)) {
	if w < 1 {
		w = 1
	}
	var wg sync.WaitGroup
	ch := make(chan int)
	for k := 0; k < w; k++ {
		wg.Add(1)
		go func() {
			defer wg.Done()
			for i := range ch {
				f(i)
			}
		}()
	}
	for i := 0; i < n; i++ {
		ch <- i
	}
	close(ch)
	wg.Wait()
}

func Truncate(s string, n int) string {
	if len(s) <= n {
		return s
	}
	return s[:n] + "…"
}

// Sleep sleeps for the given number of seconds.
func Sleep(seconds int) { time.Sleep(time.Duration(seconds) * time.Second) }
