package ga

// extra_r5C04.go — additions of hardening round 5 for C04 (derived Hash); nothing in the other files of
// this package is changed.
//
// PrivKeyShapesR5 / PrivKeyPoolR5: maps whose KEY is (or contains) a struct of an IMPORTED package with
// unexported fields.  derived Hash leaves the unexported fields of such a struct out, so keys that agree
// in their exported fields have the same hash; the hash of the map then depends on the order in which
// deriveSort(deriveKeys(m)) delivers them, i.e. on derived Compare (by value, which reaches the unexported
// fields through reflect+unsafe) telling them apart.  The pools hold keys that agree in every exported
// field and differ ONLY in unexported ones (first, last, every unexported field; directly, below an
// exported or unexported field of another imported struct, in a local wrapper, in an array), different
// values under them, and the same key/value set in many insertion orders: all these maps are Equal.
// Structs of the package itself with unexported fields are key types as well (their unexported fields are
// hashed; the tie is then in the visible part only).

import (
	"sort"
	"strings"
)

// PrivKeyTypesR5: comparable, pointer-free key types with unexported fields (of imported structs, mostly).
func (c *Catalogue) PrivKeyTypesR5() []*Type {
	xk := Named(50, "XK", 1, StP([]bool{false, true, true}, B("string"), B("int"), B("int")))    // Layer; x, y
	xq := Named(51, "XQ", 1, StP([]bool{true, false, true}, B("uint8"), B("bool"), B("string"))) // unexported first and last
	xn := Named(52, "XN", 2, St(c.E4, B("int8")))                                                // exported field of an imported type that hides everything
	xp := Named(53, "XP", 1, StP([]bool{false, true}, B("int"), xk))                             // unexported field of an imported struct type with unexported fields
	kl := Named(54, "KL", 0, St(c.E4, B("int8")))                                                // local wrapper
	kla := Named(55, "KLA", 0, St(B("string"), Ar(2, c.E2)))                                     // local wrapper of an array
	xf := Named(56, "XF", 2, StP([]bool{true, false}, Ar(2, B("float32")), c.NStrX2()))          // unexported array of floats, exported named string
	// structs of the package itself with unexported fields (hashed and compared field by field, no reflection)
	kp := Named(47, "KP", 0, StP([]bool{false, true, false, true}, B("string"), B("int"), B("bool"), B("int8")))
	kpx := Named(48, "KPX", 0, StP([]bool{true, false}, xk, B("uint8"))) // unexported field of an imported type with unexported fields
	return []*Type{c.E4, c.E2, xk, xq, xn, xp, kl, kla, Ar(2, c.E4), Ar(2, xk), xf, kp, kpx}
}

// NStrX2: a named string of imported package 2.
func (c *Catalogue) NStrX2() *Type { return Named(57, "XStr", 2, B("string")) }

// PrivKeyShapesR5: maps keyed by those types, at top level and nested in every kind of container.
func (c *Catalogue) PrivKeyShapesR5() []*Type {
	ks := c.PrivKeyTypesR5()
	var out []*Type
	for i, k := range ks {
		vt := []*Type{B("string"), B("int"), Sl(B("int")), B("uint8"), P(B("string"))}[i%5]
		out = append(out, M(k, vt))
	}
	m0, m1, m2 := M(ks[0], B("int")), M(ks[1], B("string")), M(ks[2], B("int8"))
	out = append(out, St(m0, B("int")), Sl(m1), P(m2), M(B("string"), m1), Ar(2, m2), Named(58, "NPK", 0, m0),
		Named(59, "HPK", 0, St(B("string"), m1, P(m2))), M(ks[3], m0))
	return out
}

// hasPrivR5: does the key type contain a struct with an unexported field?
func hasPrivR5(k *Type) bool {
	switch k.K {
	case KNamed, KArray:
		return hasPrivR5(k.Elem)
	case KStruct:
		for _, f := range k.Fields {
			if f.Priv || hasPrivR5(f.T) {
				return true
			}
		}
	}
	return false
}

func isPrivKeyed(t *Type) bool { return t.K == KMap && hasPrivR5(t.Key) }

// privKeys: up to n keys that agree in every leaf outside unexported fields (for the unexported fields of
// imported structs: in everything derived Hash looks at) and differ pairwise in unexported fields, and
// one key (nil when the type has no such leaf) that differs from the first in the visible leaves only.
func (g *Gen) privKeys(k *Type, n int) (tied []*Val, other *Val) {
	// distinct (under ==) values of a basic type
	distinct := func(b string) []*Val {
		var out []*Val
		seen := map[string]bool{}
		for _, v := range g.basicPool(b) {
			if c := v.canon(); !seen[c] {
				seen[c] = true
				out = append(out, v)
			}
		}
		return out
	}
	var enum func(t *Type, hidden bool, pick int) []*Val
	enum = func(t *Type, hidden bool, pick int) []*Val {
		switch t.K {
		case KBasic:
			d := distinct(t.Basic)
			if hidden {
				if len(d) > 3 {
					d = d[:3]
				}
				return d
			}
			return []*Val{d[pick%len(d)]}
		case KNamed:
			return enum(t.Elem, hidden, pick)
		case KArray, KStruct:
			var comps [][]*Val
			kind := "a"
			if t.K == KArray {
				for i := 0; i < t.N; i++ {
					comps = append(comps, enum(t.Elem, hidden, pick))
				}
			} else {
				kind = "st"
				for _, f := range t.Fields {
					comps = append(comps, enum(f.T, hidden || f.Priv, pick))
				}
			}
			out := []*Val{{K: kind}}
			for _, c := range comps {
				var next []*Val
				for _, o := range out {
					for _, x := range c {
						e := *o
						e.Elems = append(append([]*Val{}, o.Elems...), x)
						next = append(next, &e)
					}
				}
				out = next
				if len(out) > 81 {
					out = out[:81]
				}
			}
			return out
		}
		panic("privKeys: not a key type")
	}
	// visible leaves: the third value of their pools (non-zero), hidden leaves: the first three values
	all := enum(k, false, 2)
	// a spread over the product: neighbours differ in the LAST hidden leaf, distant entries in the first
	idx := []int{0, 1, len(all) - 1, len(all) / 2, 2, len(all) - 2}
	seen := map[int]bool{}
	for _, i := range idx {
		if i >= 0 && i < len(all) && !seen[i] && len(tied) < n {
			seen[i] = true
			tied = append(tied, all[i])
		}
	}
	if o := enum(k, false, 1)[0]; o.canon() != all[0].canon() {
		other = o
	}
	return
}

// privKeyMaps: maps over the tied keys with different values under them, the same entries in many
// insertion orders (all Equal), sub-maps, and maps that also hold a key with other visible fields.
func (g *Gen) privKeyMaps(t *Type, env map[int]*Type) []*Val {
	keys, other := g.privKeys(t.Key, 4)
	var vals []*Val
	seen := map[string]bool{}
	for _, v := range g.pool(t.Elem, env, 1) {
		if c := v.canon(); !seen[c] && len(vals) < 5 {
			seen[c] = true
			vals = append(vals, v)
		}
	}
	n := len(keys)
	if other != nil {
		keys = append(keys, other) // index n
	}
	mk := func(order ...int) *Val {
		m := &Val{K: "m", Loc: g.Fresh()}
		for _, i := range order {
			// tied keys carry different values (as far as the value type has them)
			m.KVs = append(m.KVs, [2]*Val{g.cl(keys[i]), g.cl(vals[(i+1)%len(vals)])})
		}
		return m
	}
	all := make([]int, n)
	rev := make([]int, n)
	rot := make([]int, n)
	for i := 0; i < n; i++ {
		all[i], rev[n-1-i], rot[i] = i, i, (i+1)%n
	}
	sh1 := append([]int{}, all...)
	sh2 := append([]int{}, all...)
	for i := n - 1; i > 0; i-- {
		j := g.R.Intn(i + 1)
		sh1[i], sh1[j] = sh1[j], sh1[i]
		j = g.R.Intn(i + 1)
		sh2[i], sh2[j] = sh2[j], sh2[i]
	}
	out := []*Val{mk(all...), mk(rev...), mk(rot...), mk(sh1...), mk(sh2...)}
	if n > 1 {
		out = append(out, mk(0, 1), mk(1, 0))
	}
	if n > 2 {
		out = append(out, mk(1, 2), mk(2, 1), mk(2, 0), mk(0, 2))
	}
	if other != nil && n > 1 {
		out = append(out, mk(n, 0, 1), mk(1, n, 0), mk(0, 1, n), mk(append([]int{n}, rev...)...), mk(append(append([]int{}, all...), n)...))
	}
	return out
}

// liftR5 returns the values of type t that carry one of the special maps (nothing when t has no such
// map): the special maps lifted through named types, pointers, slices, arrays, map values and fields.
func (g *Gen) liftR5(t *Type, env map[int]*Type, is func(*Type) bool, special func(*Type, map[int]*Type) []*Val) []*Val {
	rec := func(t *Type, env map[int]*Type) []*Val { return g.liftR5(t, env, is, special) }
	if t.K != KMap && is(t) {
		return special(t, env)
	}
	switch t.K {
	case KNamed:
		env2 := map[int]*Type{}
		for k, v := range env {
			env2[k] = v
		}
		env2[t.ID] = t
		return rec(t.Elem, env2)
	case KMap:
		if is(t) {
			sp := special(t, env)
			// a map of maps: special maps of the value type under the tied keys, in several orders and with
			// Equal inner maps that were populated differently
			if sub := rec(t.Elem, env); len(sub) > 0 && len(sp) > 0 {
				var reps, twins []*Val // inner maps with pairwise different contents; for each, an Equal one
				sigs := map[string]int{}
				for _, s := range sub {
					sig := mapSigR5(s)
					if i, ok := sigs[sig]; !ok && len(reps) < 3 {
						sigs[sig] = len(reps)
						reps = append(reps, s)
						twins = append(twins, s)
					} else if ok && twins[i] == reps[i] {
						twins[i] = s
					}
				}
				ks := sp[0].KVs
				mk := func(inner []*Val, order ...int) *Val {
					m := &Val{K: "m", Loc: g.Fresh()}
					for _, j := range order {
						if j < len(ks) {
							m.KVs = append(m.KVs, [2]*Val{g.cl(ks[j][0]), g.cl(inner[j%len(inner)])})
						}
					}
					return m
				}
				sp = append([]*Val{mk(reps, 0, 1, 2), mk(twins, 2, 1, 0), mk(reps, 1, 2, 0), mk(twins, 0, 1), mk(reps, 1, 0)}, sp...)
			}
			return sp
		}
		var out []*Val
		k0 := g.pool(t.Key, env, 1)[0]
		for _, s := range rec(t.Elem, env) {
			out = append(out, &Val{K: "m", Loc: g.Fresh(), KVs: [][2]*Val{{g.cl(k0), s}}})
		}
		return out
	case KPtr:
		var out []*Val
		for _, s := range rec(t.Elem, env) {
			out = append(out, &Val{K: "p", Loc: g.Fresh(), Elems: []*Val{s}})
		}
		return out
	case KSlice:
		sp := rec(t.Elem, env)
		var out []*Val
		for i, s := range sp {
			out = append(out, &Val{K: "sl", Loc: g.Fresh(), Elems: []*Val{s, g.cl(sp[(i+1)%len(sp)])}})
		}
		return out
	case KArray:
		if t.N == 0 {
			return nil
		}
		sp := rec(t.Elem, env)
		var out []*Val
		for i := range sp {
			a := &Val{K: "a"}
			for j := 0; j < t.N; j++ {
				a.Elems = append(a.Elems, g.cl(sp[(i+j)%len(sp)]))
			}
			out = append(out, a)
		}
		return out
	case KStruct:
		var out []*Val
		base := &Val{K: "st"}
		var subs [][]*Val
		for _, f := range t.Fields {
			base.Elems = append(base.Elems, g.pool(f.T, env, 1)[0])
			subs = append(subs, rec(f.T, env))
		}
		n := 0
		for _, s := range subs {
			n = max(n, len(s))
		}
		for i := 0; i < n; i++ {
			c := g.cl(base)
			for j, s := range subs {
				if len(s) > 0 {
					c.Elems[j] = g.cl(s[i%len(s)])
				}
			}
			out = append(out, c)
		}
		return out
	}
	return nil
}

// PrivKeyPoolR5: nil, empty and two ordinary values of the catalogue's pool, then the special values.
func PrivKeyPoolR5(g *Gen, t *Type) []*Val {
	base := g.pool(t, map[int]*Type{}, 3)
	if len(base) > 4 {
		base = base[:4]
	}
	sp := g.liftR5(t, map[int]*Type{}, isPrivKeyed, g.privKeyMaps)
	if len(sp) > 16 {
		sp = sp[:16]
	}
	return append(append([]*Val{}, base...), sp...)
}

// ---------- types recursive through a map: trees whose inner maps outgrow everything hashed before ----------

// RecMapTypesR5: three declarations in which a map leads back to the SAME map type (the function generated
// for the map type re-enters itself while it ranges over the outer keys), each with a map type of its own:
// through a pointer, by value, through a slice.
func (c *Catalogue) RecMapTypesR5() []*Type {
	recm := Named(21, "RecM", 0, nil)
	recm.Elem = St(B("int"), M(B("string"), P(Ref(recm))))
	recv := Named(22, "RecV", 0, nil)
	recv.Elem = St(M(B("int"), Ref(recv)), Sl(B("string")))
	recs := Named(23, "RecS", 0, nil)
	recs.Elem = St(B("string"), M(B("string"), Sl(Ref(recs))))
	return []*Type{recm, recv, recs}
}

func (c *Catalogue) RecMapShapesR5() []*Type {
	ts := c.RecMapTypesR5()
	return []*Type{ts[0], ts[1], ts[2], P(ts[1]), M(B("string"), ts[2]), Sl(ts[0])}
}

func isRecMapR5(t *Type) bool {
	return t.K == KNamed && (t.Name == "RecM" || t.Name == "RecV" || t.Name == "RecS")
}

// recTrees: for each size in 5, 9, 17, 33 two Equal trees (populated in different orders, at different
// addresses) of two levels whose child under the FIRST outer key has that many entries: every pair
// brings an inner map larger than any map of the type seen before in the process.
func (g *Gen) recTrees(t *Type, env map[int]*Type) []*Val {
	key := func(i int) *Val { return vs("c" + string(rune('0'+i/10)) + string(rune('0'+i%10))) }
	okey := func(i int) *Val { return vs(string(rune('a' + i))) }
	var node func(label int, m *Val) *Val // a struct of the type
	var wrap func(st *Val) *Val           // what the map holds
	switch t.Name {
	case "RecM":
		node = func(label int, m *Val) *Val { return &Val{K: "st", Elems: []*Val{vi(int64(label)), m}} }
		wrap = func(st *Val) *Val { return &Val{K: "p", Loc: g.Fresh(), Elems: []*Val{st}} }
	case "RecV":
		key = func(i int) *Val { return vi(int64(100 + 3*i)) }
		okey = func(i int) *Val { return vi(int64(i - 1)) }
		node = func(label int, m *Val) *Val {
			return &Val{K: "st", Elems: []*Val{m, {K: "sl", Loc: g.Fresh(), Elems: []*Val{vs("n" + string(rune('0'+label%10)))}}}}
		}
		wrap = func(st *Val) *Val { return st }
	default: // RecS
		node = func(label int, m *Val) *Val {
			return &Val{K: "st", Elems: []*Val{vs("n" + string(rune('0'+label%10))), m}}
		}
		wrap = func(st *Val) *Val { return &Val{K: "sl", Loc: g.Fresh(), Elems: []*Val{st}} }
	}
	nilm := func() *Val { return &Val{K: "nilm"} }
	child := func(label, n int, desc bool) *Val {
		m := &Val{K: "m", Loc: g.Fresh()}
		for j := 0; j < n; j++ {
			i := j
			if desc {
				i = n - 1 - j
			}
			m.KVs = append(m.KVs, [2]*Val{key(i), wrap(node(label+i, nilm()))})
		}
		return wrap(node(label, m))
	}
	tree := func(n int, variant bool) *Val {
		kids := [][2]*Val{{okey(0), child(10, n, variant)}, {okey(1), child(20, 2, variant)}, {okey(2), wrap(node(30, nilm()))}}
		order := []int{0, 1, 2}
		if variant {
			order = []int{2, 0, 1}
		}
		m := &Val{K: "m", Loc: g.Fresh()}
		for _, i := range order {
			m.KVs = append(m.KVs, kids[i])
		}
		return node(1, m)
	}
	var out []*Val
	for _, n := range []int{5, 9, 17, 33} {
		out = append(out, tree(n, false), tree(n, true))
	}
	return out
}

// RecMapPoolR5: the pairs of trees in ascending size first (the caller hashes them pairwise in this
// order), then three ordinary values of the catalogue's pool.
func RecMapPoolR5(g *Gen, t *Type) []*Val {
	sp := g.liftR5(t, map[int]*Type{}, isRecMapR5, g.recTrees)
	base := g.pool(t, map[int]*Type{}, 2)
	if len(base) > 3 {
		base = base[:3]
	}
	return append(sp, base...)
}

// mapSigR5: the contents of a map value without labels and insertion order (other values: their canon).
func mapSigR5(v *Val) string {
	if v.K != "m" {
		return v.canon()
	}
	var es []string
	for _, kv := range v.KVs {
		es = append(es, kv[0].canon()+"="+mapSigR5(kv[1]))
	}
	sort.Strings(es)
	return "{" + strings.Join(es, ",") + "}"
}
