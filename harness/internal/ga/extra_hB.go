package ga

// extra_hB.go — additions of hardening round 4 (properties C02, C04, C14, C18); nothing in the other
// files of this package is changed.
//
//   * ExtraRun: the flow of ValueRun.Run (batch, generate, build the driver, run the cases, collect the
//     observation files) for a GIVEN list of types with a value pool chosen by the caller, so that a
//     property can add shapes of its own to the catalogue's.
//   * MethodShapesHB: named types that declare their own Equal method — with a value, a pointer or an
//     INTERFACE parameter (spelled interface{} and any), comparable and not, local and imported — as
//     top-level type and as component in every position (value, pointer, slice, array, map, field).
//   * FloatKeyShapesHB / FloatKeyPoolHB: maps whose key is a struct or array that contains floats, with
//     pairs of maps that differ only in the SIGN OF ZEROS INSIDE THEIR KEYS (== and Equal cannot tell
//     them apart; anything that orders or hashes keys by their bits can).
//   * FlipZerosHB, HasFloatZeroHB, NaNifyHB: value rewrites used by the list properties (C14).

import (
	"fmt"
	"os"
	"path/filepath"
	"strings"

	"verifharness/internal/hx"
)

// ---------- the flow ----------

// ExtraRun runs VR.Cases over Types (in packages of their own, named after Name) and appends the
// observation files to meta.  The types are not probed one by one: they are shapes the generator is
// known to accept, a batch that cannot be generated or built is a direct finding as in ValueRun.Run.
type ExtraRun struct {
	VR    *ValueRun
	Name  string // prefix of the scratch directories and observation files
	Types []*Type
	// Pool returns the value pool of one type (nil: the catalogue's pool capped at PoolMax).
	Pool    func(g *Gen, t *Type) []*Val
	PoolMax int
	// Probe: also run goderive on every type alone and write the support observations.
	Probe bool
}

func (x *ExtraRun) Run(cfg hx.Config, meta *hx.Meta) error {
	vr := x.VR
	low := strings.ToLower(vr.Prop)
	r := hx.NewRand(cfg.Seed ^ 0x6842).Fork(uint64(len(x.Name)))
	types := Dedup(x.Types)
	idx := make([]int, len(types))
	for i := range idx {
		idx[i] = i
	}
	if x.Probe {
		probes := Probe(cfg.Goderive, filepath.Join(cfg.Work, x.Name+"-probe"), types, vr.Calls, true)
		var sup strings.Builder
		var ok []*Type
		var okIdx []int
		for i, t := range types {
			meta.GoderiveRuns++
			meta.Count(x.Name + "/gen/" + probes[i].GenClass)
			fmt.Fprintf(&sup, "(%s %s %s)\n", vr.SupObs, t.Sexp(), probes[i].GenClass)
			if probes[i].GenClass == "ok" && probes[i].VetOK {
				ok = append(ok, t)
				okIdx = append(okIdx, i)
			}
		}
		supf := filepath.Join(cfg.Out, low+"-"+x.Name+"-support.obs")
		if err := os.WriteFile(supf, []byte(sup.String()), 0o644); err != nil {
			return err
		}
		meta.ObsFiles = append(meta.ObsFiles, supf)
		types, idx = ok, okIdx
	}
	bts, bis := Batches(types, idx, 60)
	nb := len(bts)
	obsFiles := make([]string, nb)
	errs := make([]error, nb)
	rs := make([]*hx.Rand, nb)
	for b := range rs {
		rs[b] = r.Fork(uint64(b))
	}
	hx.Parallel(nb, 8, func(b int) {
		p := &Pkg{Dir: filepath.Join(cfg.Work, fmt.Sprintf("%s-batch%02d", x.Name, b)), Types: bts[b], Idx: bis[b], Calls: vr.Calls, Extra: vr.Extra}
		if errs[b] = p.Write(); errs[b] != nil {
			return
		}
		g := p.Generate(cfg.Goderive)
		if g.Exit != 0 {
			meta.AddDirect(hx.Direct{Class: low + "-batch-generate-failed", What: "goderive fails on the " + x.Name + " shapes", Cmd: "goderive .", Output: hx.Truncate(g.Out, 3000)})
			return
		}
		if bd := p.BuildDriver(); bd.Exit != 0 {
			meta.AddDirect(hx.Direct{Class: low + "-batch-build-failed", What: "the code generated for the " + x.Name + " shapes does not build", Cmd: "go build -tags drv", Output: hx.Truncate(bd.Out, 3000)})
			return
		}
		gen := NewGen(rs[b], x.PoolMax)
		var cases strings.Builder
		for i, t := range p.Types {
			var vals []*Val
			if x.Pool != nil {
				vals = x.Pool(gen, t)
			} else {
				vals = gen.Pool(t, map[int]*Type{}, 3)
			}
			vr.Cases(p.Idx[i], t, vals, rs[b], &cases)
			meta.CountSafe(fmt.Sprintf("%s/pool-size/%02d", x.Name, min(len(vals), 40)))
		}
		res := p.RunDriver(cases.String())
		if res.Exit != 0 {
			meta.AddDirect(hx.Direct{Class: low + "-driver-failed", What: "driver crashed (" + x.Name + " shapes)", Cmd: "./drv cases.txt", Output: hx.Truncate(res.Out, 3000)})
			return
		}
		if vr.TwoProcess {
			if res2 := p.RunDriver(cases.String()); res2.Stdout != res.Stdout {
				meta.AddDirect(hx.Direct{Class: low + "-not-repeatable", What: "two processes running the same calls print different results",
					Cmd: "./drv cases.txt (twice)", Output: firstDiff(res.Stdout, res2.Stdout)})
			}
			meta.CountSafe("two-process-comparisons")
		}
		obsFiles[b] = filepath.Join(cfg.Out, fmt.Sprintf("%s-%s-batch%02d.obs", low, x.Name, b))
		errs[b] = os.WriteFile(obsFiles[b], []byte(res.Stdout), 0o644)
	})
	for b := range obsFiles {
		if errs[b] != nil {
			return errs[b]
		}
		if obsFiles[b] != "" {
			meta.ObsFiles = append(meta.ObsFiles, obsFiles[b])
			meta.GoderiveRuns++
			meta.Packages++
		}
	}
	meta.Count(fmt.Sprintf("%s/types=%d", x.Name, len(types)))
	return nil
}

// ---------- types with their own Equal method ----------

// The convention of coq/theories/Go/Methods.v: declaration ids 100..199 = Equal(T) with a value
// receiver, 200..299 = the method is handed the ADDRESS of the other value (plugin/equal emits the
// same text for a pointer parameter and for an interface parameter: this.F.Equal(&that.F) for a value
// component, this.P.Equal(that.P) for a pointer component); the methods look at the first field only,
// so that a dispatch that does not ask the method, or asks it the wrong way, is visible.

func ifaceEqual(name, param string) string {
	// the classic shape of an Equal(interface{}) method (gogo-protobuf without the value case):
	// it understands a pointer to its own type and nothing else
	return "func (a *" + name + ") Equal(that " + param + ") bool {\n\tb, ok := that.(*" + name + ")\n\tif !ok {\n\t\treturn false\n\t}\n" +
		"\tif a == nil || b == nil {\n\t\treturn a == nil && b == nil\n\t}\n\treturn a.F0 == b.F0\n}\n\n"
}

// MethodTypesHB returns the named types with an Equal method: (value parameter) ME, MEs, XE;
// (pointer parameter) MP; (interface parameter) MI, MIc, XI and, spelled `any`, MA.
func (c *Catalogue) MethodTypesHB() []*Type {
	mes := Named(101, "MEs", 0, St(B("int"), Sl(B("string"))))
	mes.Methods = "func (a MEs) Equal(b MEs) bool { return a.F0 == b.F0 }\n\n"
	xe := Named(102, "XE", 2, St(B("string"), B("int")))
	xe.Methods = "func (a XE) Equal(b XE) bool { return a.F0 == b.F0 }\n\n"
	mi := Named(210, "MI", 0, St(B("string"), Sl(B("int"))))
	mi.Methods = ifaceEqual("MI", "interface{}")
	mic := Named(211, "MIc", 0, St(B("int"), B("string")))
	mic.Methods = ifaceEqual("MIc", "interface{}")
	ma := Named(212, "MA", 0, St(B("string"), B("int")))
	ma.Methods = ifaceEqual("MA", "any")
	xi := Named(213, "XI", 1, St(B("int"), Sl(B("int"))))
	xi.Methods = ifaceEqual("XI", "interface{}")
	return []*Type{c.ME, mes, xe, c.MP, mi, mic, ma, xi}
}

// MethodShapesHB: every method type as top-level type and as a component held by value and by
// pointer in every kind of container, directly and inside a named struct.
func (c *Catalogue) MethodShapesHB() []*Type {
	var out []*Type
	for i, t := range c.MethodTypesHB() {
		h := Named(60+i, "H"+t.Name, 0, St(B("string"), t, P(t)))
		out = append(out, t, P(t), Sl(t), Ar(2, t), M(B("string"), t),
			St(P(t), B("int")), Sl(P(t)), Ar(2, P(t)), M(B("int"), P(t)), P(P(t)),
			h, P(h), Sl(h))
	}
	return out
}

// ---------- maps with composite keys that contain floats ----------

// FloatKeyTypesHB: comparable, pointer-free struct and array types with float components (derived
// Compare refuses unnamed structs, so the structs are named).
func (c *Catalogue) FloatKeyTypesHB() []*Type {
	kc := Named(41, "KC", 0, St(B("float64"), B("float64")))
	kn := Named(42, "KN", 0, St(c.NF64, B("int8")))
	kz := Named(43, "KZ", 0, St(B("complex128"), B("string")))
	ks := Named(44, "KS", 0, St(B("string"), Ar(2, B("float32"))))
	return []*Type{kc, Ar(2, B("float32")), kn, Ar(2, B("float64")), kz, ks, Ar(2, kc), Ar(3, c.NF64)}
}

// FloatKeyShapesHB: maps keyed by those types, at top level and nested in every kind of container.
func (c *Catalogue) FloatKeyShapesHB() []*Type {
	ks := c.FloatKeyTypesHB()
	var out []*Type
	for i, k := range ks {
		vt := []*Type{B("string"), B("int"), Sl(B("int")), B("bool")}[i%4]
		out = append(out, M(k, vt))
	}
	m0, m1, m2 := M(ks[0], B("int")), M(ks[1], B("string")), M(ks[2], B("int"))
	out = append(out, St(m0, B("int")), Sl(m1), P(m0), M(B("string"), m1), Ar(2, m2), Named(45, "NMK", 0, m0),
		Named(46, "HK", 0, St(B("string"), m1, P(m2))))
	return out
}

func isFloatKeyed(t *Type) bool {
	if t.K != KMap {
		return false
	}
	var has func(k *Type) bool
	has = func(k *Type) bool {
		switch k.K {
		case KBasic:
			return strings.HasPrefix(k.Basic, "float") || strings.HasPrefix(k.Basic, "complex")
		case KNamed, KArray:
			return has(k.Elem)
		case KStruct:
			for _, f := range k.Fields {
				if has(f.T) {
					return true
				}
			}
		}
		return false
	}
	return t.Key.K != KBasic && !(t.Key.K == KNamed && t.Key.Elem.K == KBasic) && has(t.Key)
}

// zeroKeys: up to n values of the key type, pairwise different under ==, whose float leaves are 0 or 1
// (the zeros are what the sign patterns below vary); the other leaves take their first two pool values.
func (g *Gen) zeroKeys(k *Type, n int) []*Val {
	var enum func(t *Type) []*Val
	enum = func(t *Type) []*Val {
		switch t.K {
		case KBasic:
			switch t.Basic {
			case "float64":
				return []*Val{vf64(0), vf64(1)}
			case "float32":
				return []*Val{vf32(0), vf32(1)}
			case "complex128":
				return []*Val{vc(vf64(0), vf64(0)), vc(vf64(0), vf64(1)), vc(vf64(1), vf64(0))}
			case "complex64":
				return []*Val{vc(vf32(0), vf32(0)), vc(vf32(0), vf32(1)), vc(vf32(1), vf32(0))}
			}
			return g.basicPool(t.Basic)[:2]
		case KNamed:
			return enum(t.Elem)
		case KArray, KStruct:
			var comps [][]*Val
			if t.K == KArray {
				for i := 0; i < t.N; i++ {
					comps = append(comps, enum(t.Elem))
				}
			} else {
				for _, f := range t.Fields {
					comps = append(comps, enum(f.T))
				}
			}
			kind := "a"
			if t.K == KStruct {
				kind = "st"
			}
			out := []*Val{{K: kind}}
			for _, c := range comps {
				var next []*Val
				for _, o := range out {
					for _, x := range c {
						e := *o
						e.Elems = append(append([]*Val{}, o.Elems...), x)
						next = append(next, &e)
					}
				}
				out = next
				if len(out) > 64 {
					out = out[:64]
				}
			}
			return out
		}
		panic("zeroKeys: not a key type")
	}
	all := enum(k)
	// the first component varies slowest in `all`: its first entries agree on their leading zeros and
	// differ in a later component
	var out []*Val
	for i := 0; i < len(all) && len(out) < n; i++ {
		out = append(out, all[i])
	}
	return out
}

// signed returns a copy of v whose float zeros carry the signs given by the bits of pattern (one bit
// per zero, in the order of a walk over v).
func signed(v *Val, pattern uint64) *Val {
	c := v.Clone(func() int { return 0 })
	i := uint(0)
	c.walk(func(x *Val) {
		switch x.K {
		case "f":
			if x.Mag == 0 {
				x.Neg = pattern>>(i%64)&1 == 1
				i++
			}
		case "c":
			if x.Mag == 0 {
				x.Neg = pattern>>(i%64)&1 == 1
				i++
			}
			if x.IMag == 0 {
				x.INeg = pattern>>(i%64)&1 == 1
				i++
			}
		}
	})
	return c
}

// floatKeyMaps: maps over the zero-heavy keys, each under several sign patterns of the zeros in its
// keys and in several insertion orders: all maps with the same key set and values are Equal.
func (g *Gen) floatKeyMaps(t *Type, env map[int]*Type) []*Val {
	keys := g.zeroKeys(t.Key, 4)
	vals := g.take(g.pool(t.Elem, env, 1), 3)
	val := func(i int) *Val { return vals[i%len(vals)] }
	mk := func(order []int, pattern uint64) *Val {
		m := &Val{K: "m", Loc: g.Fresh()}
		for _, i := range order {
			// every key gets its own slice of the pattern
			m.KVs = append(m.KVs, [2]*Val{signed(keys[i], pattern>>(uint(i)*4)), g.cl(val(i))})
		}
		return m
	}
	all := make([]int, len(keys))
	rev := make([]int, len(keys))
	for i := range keys {
		all[i], rev[len(keys)-1-i] = i, i
	}
	alt := uint64(0xA5A5A5A5A5A5A5A5)
	out := []*Val{
		mk(all, 0), mk(all, ^uint64(0)), mk(all, alt), mk(all, ^alt), mk(rev, alt), mk(rev, 0x6C6C6C6C6C6C6C6C), mk(all, g.R.U64()), mk(rev, g.R.U64()),
	}
	if len(keys) > 2 {
		two := []int{1, 2}
		out = append(out, mk(two, 0), mk(two, alt), mk([]int{2, 1}, ^alt))
	}
	return out
}

// fkSpecial returns the values of type t that carry one of the float-keyed maps above (nothing when t
// has no such map): the special maps lifted through pointers, slices, arrays, map values and fields.
func (g *Gen) fkSpecial(t *Type, env map[int]*Type) []*Val {
	switch t.K {
	case KNamed:
		env2 := map[int]*Type{}
		for k, v := range env {
			env2[k] = v
		}
		env2[t.ID] = t
		return g.fkSpecial(t.Elem, env2)
	case KMap:
		if isFloatKeyed(t) {
			return g.floatKeyMaps(t, env)
		}
		var out []*Val
		k0 := g.pool(t.Key, env, 1)[0]
		for _, s := range g.fkSpecial(t.Elem, env) {
			out = append(out, &Val{K: "m", Loc: g.Fresh(), KVs: [][2]*Val{{g.cl(k0), s}}})
		}
		return out
	case KPtr:
		var out []*Val
		for _, s := range g.fkSpecial(t.Elem, env) {
			out = append(out, &Val{K: "p", Loc: g.Fresh(), Elems: []*Val{s}})
		}
		return out
	case KSlice:
		sp := g.fkSpecial(t.Elem, env)
		var out []*Val
		for i, s := range sp {
			out = append(out, &Val{K: "sl", Loc: g.Fresh(), Elems: []*Val{s, g.cl(sp[(i+1)%len(sp)])}})
		}
		return out
	case KArray:
		sp := g.fkSpecial(t.Elem, env)
		var out []*Val
		for i := range sp {
			a := &Val{K: "a"}
			for j := 0; j < t.N; j++ {
				a.Elems = append(a.Elems, g.cl(sp[(i+j)%len(sp)]))
			}
			out = append(out, a)
		}
		if t.N == 0 {
			return nil
		}
		return out
	case KStruct:
		var out []*Val
		base := &Val{K: "st"}
		var subs [][]*Val
		for _, f := range t.Fields {
			base.Elems = append(base.Elems, g.pool(f.T, env, 1)[0])
			subs = append(subs, g.fkSpecial(f.T, env))
		}
		n := 0
		for _, s := range subs {
			n = max(n, len(s))
		}
		for i := 0; i < n; i++ {
			c := g.cl(base)
			for j, s := range subs {
				if len(s) > 0 {
					c.Elems[j] = g.cl(s[i%len(s)])
				}
			}
			out = append(out, c)
		}
		return out
	}
	return nil
}

// FloatKeyPoolHB: nil, empty and two ordinary values of the catalogue's pool, then the special values.
func FloatKeyPoolHB(g *Gen, t *Type) []*Val {
	base := g.pool(t, map[int]*Type{}, 3)
	if len(base) > 4 {
		base = base[:4]
	}
	return append(append([]*Val{}, base...), g.fkSpecial(t, map[int]*Type{})...)
}

// ---------- value rewrites for the list properties ----------

// HasFloatZeroHB: does v contain a float (or complex part) that is zero, outside spare capacity?
func HasFloatZeroHB(v *Val) bool {
	found := false
	var rec func(x *Val)
	rec = func(x *Val) {
		if (x.K == "f" && x.Mag == 0) || (x.K == "c" && (x.Mag == 0 || x.IMag == 0)) {
			found = true
		}
		for _, e := range x.Elems {
			rec(e)
		}
		for _, kv := range x.KVs {
			rec(kv[0])
			rec(kv[1])
		}
	}
	rec(v)
	return found
}

// FlipZerosHB returns a copy of v (fresh labels) in which the sign of every float zero is flipped: a
// value that == and derived Equal cannot tell from v, with different bits.
func FlipZerosHB(v *Val, fresh func() int) *Val {
	c := v.Clone(fresh)
	c.walk(func(x *Val) {
		if x.K == "f" && x.Mag == 0 {
			x.Neg = !x.Neg
		}
		if x.K == "c" {
			if x.Mag == 0 {
				x.Neg = !x.Neg
			}
			if x.IMag == 0 {
				x.INeg = !x.INeg
			}
		}
	})
	return c
}

// NaNifyHB returns a copy of v (fresh labels) in which the which-th float leaf that is not part of a map
// key or of spare capacity is a NaN (which < 0: every such leaf), and whether there was such a leaf.
// The width of the leaf comes from the type.
func NaNifyHB(t *Type, v *Val, which int, fresh func() int) (*Val, bool) {
	c := v.Clone(fresh)
	n := 0
	hit := false
	nan := func(x *Val, bits uint64) {
		if which < 0 || n == which {
			x.Neg, x.Mag = false, bits
			if x.K == "c" {
				x.INeg, x.IMag = false, 0
			}
			hit = true
		}
		n++
	}
	var rec func(t *Type, env map[int]*Type, x *Val)
	rec = func(t *Type, env map[int]*Type, x *Val) {
		switch t.K {
		case KBasic:
			switch t.Basic {
			case "float64", "complex128":
				nan(x, 0x7FF8000000000001)
			case "float32", "complex64":
				nan(x, 0x7FC00001)
			}
		case KNamed:
			env2 := map[int]*Type{}
			for k, v := range env {
				env2[k] = v
			}
			env2[t.ID] = t
			rec(t.Elem, env2, x)
		case KRef:
			rec(env[t.ID].Elem, env, x)
		case KPtr:
			if x.K == "p" {
				rec(t.Elem, env, x.Elems[0])
			}
		case KSlice, KArray:
			if x.K == "sl" || x.K == "a" {
				for _, e := range x.Elems {
					rec(t.Elem, env, e)
				}
			}
		case KMap:
			if x.K == "m" {
				for _, kv := range x.KVs {
					rec(t.Elem, env, kv[1])
				}
			}
		case KStruct:
			for i, f := range t.Fields {
				rec(f.T, env, x.Elems[i])
			}
		}
	}
	rec(t, map[int]*Type{}, c)
	return c, hit
}
