package ga

import (
	"fmt"
	"math"
	"strconv"
	"strings"

	"verifharness/internal/hx"
)

// Val mirrors Go/Val.v.
type Val struct {
	K     string // b i f c s nilp p nils sl nilm m a st
	Bool  bool
	Int   string // decimal
	Neg   bool
	Mag   uint64
	INeg  bool
	IMag  uint64
	Str   []byte
	Loc   int
	Elems []*Val // p: [target]; sl: elements; a; st
	Spare []*Val
	KVs   [][2]*Val
}

func (v *Val) Sexp() string {
	var b strings.Builder
	v.sexp(&b)
	return b.String()
}

func list(b *strings.Builder, l []*Val) {
	for i, e := range l {
		if i > 0 {
			b.WriteByte(' ')
		}
		e.sexp(b)
	}
}

func (v *Val) sexp(b *strings.Builder) {
	switch v.K {
	case "b":
		fmt.Fprintf(b, "(b %d)", b2i(v.Bool))
	case "i":
		b.WriteString("(i " + v.Int + ")")
	case "f":
		fmt.Fprintf(b, "(f %d %d)", b2i(v.Neg), v.Mag)
	case "c":
		fmt.Fprintf(b, "(c %d %d %d %d)", b2i(v.Neg), v.Mag, b2i(v.INeg), v.IMag)
	case "s":
		b.WriteString("(s")
		for _, c := range v.Str {
			fmt.Fprintf(b, " %d", c)
		}
		b.WriteString(")")
	case "nilp", "nils", "nilm":
		b.WriteString(v.K)
	case "p":
		fmt.Fprintf(b, "(p %d ", v.Loc)
		v.Elems[0].sexp(b)
		b.WriteString(")")
	case "sl":
		fmt.Fprintf(b, "(sl %d (", v.Loc)
		list(b, v.Elems)
		b.WriteString(") (")
		list(b, v.Spare)
		b.WriteString("))")
	case "m":
		fmt.Fprintf(b, "(m %d (", v.Loc)
		for i, kv := range v.KVs {
			if i > 0 {
				b.WriteByte(' ')
			}
			b.WriteByte('(')
			kv[0].sexp(b)
			b.WriteByte(' ')
			kv[1].sexp(b)
			b.WriteByte(')')
		}
		b.WriteString("))")
	case "a", "st":
		b.WriteString("(" + v.K)
		if len(v.Elems) > 0 {
			b.WriteByte(' ')
		}
		list(b, v.Elems)
		b.WriteString(")")
	}
}

// canon: like Sexp but with labels erased and -0 mapped to +0: two key values are Go-== iff canon agrees.
func (v *Val) canon() string {
	c := v.Clone(func() int { return 0 })
	c.walk(func(x *Val) {
		if x.K == "f" && x.Mag == 0 {
			x.Neg = false
		}
		if x.K == "c" {
			if x.Mag == 0 {
				x.Neg = false
			}
			if x.IMag == 0 {
				x.INeg = false
			}
		}
	})
	return c.Sexp()
}

func (v *Val) walk(f func(*Val)) {
	f(v)
	for _, e := range v.Elems {
		e.walk(f)
	}
	for _, e := range v.Spare {
		e.walk(f)
	}
	for _, kv := range v.KVs {
		kv[0].walk(f)
		kv[1].walk(f)
	}
}

// Clone copies the tree; every label is replaced by fresh() (same old label -> same new label).
func (v *Val) Clone(fresh func() int) *Val {
	m := map[int]int{}
	var rec func(x *Val) *Val
	rec = func(x *Val) *Val {
		c := *x
		if x.K == "p" || x.K == "sl" || x.K == "m" {
			if n, ok := m[x.Loc]; ok {
				c.Loc = n
			} else {
				c.Loc = fresh()
				m[x.Loc] = c.Loc
			}
		}
		c.Elems = nil
		for _, e := range x.Elems {
			c.Elems = append(c.Elems, rec(e))
		}
		c.Spare = nil
		for _, e := range x.Spare {
			c.Spare = append(c.Spare, rec(e))
		}
		c.KVs = nil
		for _, kv := range x.KVs {
			c.KVs = append(c.KVs, [2]*Val{rec(kv[0]), rec(kv[1])})
		}
		return &c
	}
	return rec(v)
}

// ---------- pools ----------

type Gen struct {
	R    *hx.Rand
	next int
	Max  int // cap on the pool size of one type
}

func NewGen(r *hx.Rand, max int) *Gen { return &Gen{R: r, next: 100, Max: max} }

func (g *Gen) Fresh() int { g.next++; return g.next }

func vi(n int64) *Val  { return &Val{K: "i", Int: strconv.FormatInt(n, 10)} }
func vu(n uint64) *Val { return &Val{K: "i", Int: strconv.FormatUint(n, 10)} }
func vs(s string) *Val { return &Val{K: "s", Str: []byte(s)} }
func vf64(f float64) *Val {
	b := math.Float64bits(f)
	return &Val{K: "f", Neg: b>>63 == 1, Mag: b &^ (1 << 63)}
}
func vf32(f float32) *Val {
	b := math.Float32bits(f)
	return &Val{K: "f", Neg: b>>31 == 1, Mag: uint64(b &^ (1 << 31))}
}
func vc(re, im *Val) *Val {
	return &Val{K: "c", Neg: re.Neg, Mag: re.Mag, INeg: im.Neg, IMag: im.Mag}
}

func (g *Gen) basicPool(b string) []*Val {
	switch b {
	case "bool":
		return []*Val{{K: "b"}, {K: "b", Bool: true}}
	case "int", "int64":
		return []*Val{vi(0), vi(1), vi(-1), vi(math.MinInt64), vi(math.MaxInt64), vi(7)}
	case "int8":
		return []*Val{vi(0), vi(1), vi(-1), vi(-128), vi(127)}
	case "int16":
		return []*Val{vi(0), vi(1), vi(-1), vi(-32768), vi(32767)}
	case "int32", "rune":
		return []*Val{vi(0), vi(1), vi(-1), vi(math.MinInt32), vi(math.MaxInt32)}
	case "uint8", "byte":
		return []*Val{vu(0), vu(1), vu(255), vu(97)}
	case "uint16":
		return []*Val{vu(0), vu(1), vu(65535)}
	case "uint32":
		return []*Val{vu(0), vu(1), vu(math.MaxUint32)}
	case "uint", "uint64", "uintptr":
		return []*Val{vu(0), vu(1), vu(math.MaxUint64), vu(1 << 63), vu(31)}
	case "float64":
		return []*Val{vf64(0), vf64(math.Copysign(0, -1)), vf64(1), vf64(-1.5), vf64(math.Inf(1)), vf64(math.Inf(-1)), vf64(5e-324), vf64(2.5)}
	case "float32":
		return []*Val{vf32(0), vf32(float32(math.Copysign(0, -1))), vf32(1), vf32(-1.5), vf32(float32(math.Inf(1))), vf32(float32(math.Inf(-1))), vf32(1e-45)}
	case "complex128":
		z, nz, one, two := vf64(0), vf64(math.Copysign(0, -1)), vf64(1), vf64(-2)
		return []*Val{vc(z, z), vc(nz, z), vc(z, nz), vc(one, two), vc(one, one), vc(two, one), vc(two, vf64(math.Inf(1)))}
	case "complex64":
		z, nz, one, two := vf32(0), vf32(float32(math.Copysign(0, -1))), vf32(1), vf32(-2)
		return []*Val{vc(z, z), vc(nz, z), vc(z, nz), vc(one, two), vc(one, one), vc(two, one)}
	case "string":
		return []*Val{vs(""), vs("a"), vs("ab"), vs("b"), vs("é"), vs("\xff"), vs("a\"\n"), vs("日本")}
	}
	panic("basic " + b)
}

// Pool returns distinct values of t; the first is the zero value.  depth bounds recursion
// through recursive declarations.
func (g *Gen) Pool(t *Type, env map[int]*Type, depth int) []*Val {
	p := g.pool(t, env, depth)
	if g.Max > 0 && len(p) > g.Max {
		keep := append([]*Val{}, p[:3]...)
		rest := append([]*Val{}, p[3:]...)
		hx.Shuffle(g.R, rest)
		p = append(keep, rest[:g.Max-3]...)
	}
	return p
}

func (g *Gen) take(p []*Val, n int) []*Val {
	if len(p) <= n {
		return p
	}
	out := append([]*Val{}, p[:2]...)
	for len(out) < n {
		out = append(out, p[2+g.R.Intn(len(p)-2)])
	}
	return out
}

func (g *Gen) cl(v *Val) *Val { return v.Clone(g.Fresh) }

func (g *Gen) pool(t *Type, env map[int]*Type, depth int) []*Val {
	switch t.K {
	case KBasic:
		return g.basicPool(t.Basic)
	case KNamed:
		env2 := map[int]*Type{}
		for k, v := range env {
			env2[k] = v
		}
		env2[t.ID] = t
		out := g.pool(t.Elem, env2, depth)
		if t.Name == "RecM" && depth >= 2 {
			// struct{int; map[string]*RecM}: a tree two levels deep whose inner maps have several entries
			// (the function generated for the map type re-enters itself while it ranges over the outer keys)
			leaf := func(n int64) *Val {
				return &Val{K: "p", Loc: g.Fresh(), Elems: []*Val{{K: "st", Elems: []*Val{vi(n), {K: "nilm"}}}}}
			}
			inner := func(n int64, keys ...string) *Val {
				m := &Val{K: "m", Loc: g.Fresh()}
				for i, k := range keys {
					m.KVs = append(m.KVs, [2]*Val{vs(k), leaf(n + int64(i))})
				}
				return &Val{K: "p", Loc: g.Fresh(), Elems: []*Val{{K: "st", Elems: []*Val{vi(n), m}}}}
			}
			tree := func(order []int) *Val {
				kids := [][2]*Val{{vs("a"), inner(10, "x", "y", "z")}, {vs("b"), inner(20, "p", "q")}, {vs("c"), inner(30, "r", "s", "t", "u")}}
				m := &Val{K: "m", Loc: g.Fresh()}
				for _, i := range order {
					m.KVs = append(m.KVs, kids[i])
				}
				return &Val{K: "st", Elems: []*Val{vi(1), m}}
			}
			out = append(out, tree([]int{0, 1, 2}), tree([]int{2, 1, 0}), tree([]int{1}), tree([]int{1, 0}))
		}
		for _, x := range t.ExtraVals {
			out = append(out, g.cl(x))
		}
		return out
	case KRef:
		return g.pool(env[t.ID].Elem, env, depth)
	case KPtr:
		out := []*Val{{K: "nilp"}}
		if depth <= 0 {
			return out
		}
		sub := g.take(g.pool(t.Elem, env, depth-1), 3)
		for _, s := range sub {
			out = append(out, &Val{K: "p", Loc: g.Fresh(), Elems: []*Val{g.cl(s)}})
		}
		out = append(out, &Val{K: "p", Loc: g.Fresh(), Elems: []*Val{g.cl(sub[0])}}) // equal contents, distinct address
		return out
	case KSlice:
		out := []*Val{{K: "nils"}}
		if depth <= 0 {
			return append(out, &Val{K: "sl", Loc: g.Fresh()})
		}
		sub := g.take(g.pool(t.Elem, env, depth-1), 3)
		v0 := sub[0]
		v1 := sub[len(sub)-1]
		if len(sub) > 1 {
			v1 = sub[1]
		}
		mk := func(spare []*Val, es ...*Val) *Val {
			s := &Val{K: "sl", Loc: g.Fresh()}
			for _, e := range es {
				s.Elems = append(s.Elems, g.cl(e))
			}
			for _, e := range spare {
				s.Spare = append(s.Spare, g.cl(e))
			}
			return s
		}
		out = append(out, mk(nil), mk(nil, v0), mk(nil, v1), mk(nil, v0, v1), mk(nil, v1, v0), mk(nil, v0, v0, v1),
			mk([]*Val{v1}, v0), mk([]*Val{v0, v1}), mk(nil, v0, v1, v0))
		if len(sub) > 2 {
			out = append(out, mk(nil, sub[2]), mk(nil, v0, sub[2]))
		}
		if u := t.Elem.Under(env); u.K == KBasic {
			// a short slice in front of a long spare capacity (the head of a read buffer), and the same
			// contents without it
			spare := make([]*Val, 70)
			for i := range spare {
				spare[i] = v1
			}
			out = append(out, mk(spare, v0, v1), mk(nil, v0, v1))
		}
		if u := t.Elem.Under(env); u.K == KPtr && depth > 1 {
			// internally shared sub-structure: the same pointer twice
			for _, s := range sub {
				if s.K == "p" {
					a := g.cl(s)
					out = append(out, &Val{K: "sl", Loc: g.Fresh(), Elems: []*Val{a, a}})
					break
				}
			}
		}
		return out
	case KArray:
		sub := g.take(g.pool(t.Elem, env, depth), 3)
		base := &Val{K: "a"}
		for i := 0; i < t.N; i++ {
			base.Elems = append(base.Elems, g.cl(sub[0]))
		}
		out := []*Val{base}
		for i := 0; i < t.N; i++ {
			for _, alt := range sub[1:] {
				c := g.cl(base)
				c.Elems[i] = g.cl(alt)
				out = append(out, c)
			}
		}
		if t.N > 1 && len(sub) > 1 {
			c := &Val{K: "a"}
			for i := 0; i < t.N; i++ {
				c.Elems = append(c.Elems, g.cl(sub[1]))
			}
			out = append(out, c)
		}
		// every element owns memory (the first pool entries of slices/maps/pointers are nil and empty):
		// the two longest distinct element values, in both arrangements
		if t.N > 0 {
			ep := g.pool(t.Elem, env, depth)
			r1, r2 := ep[0], ep[0]
			for _, c := range ep {
				if n := len(c.Sexp()); n > len(r1.Sexp()) {
					r1, r2 = c, r1
				} else if n > len(r2.Sexp()) && c != r1 {
					r2 = c
				}
			}
			if r1 != ep[0] {
				a, b := &Val{K: "a"}, &Val{K: "a"}
				for i := 0; i < t.N; i++ {
					x, y := r1, r2
					if i%2 == 1 {
						x, y = r2, r1
					}
					a.Elems = append(a.Elems, g.cl(x))
					b.Elems = append(b.Elems, g.cl(y))
				}
				out = append(out, a, b)
			}
		}
		return out
	case KMap:
		out := []*Val{{K: "nilm"}, {K: "m", Loc: g.Fresh()}}
		if depth <= 0 {
			return out
		}
		kp := g.pool(t.Key, env, depth-1)
		// keys pairwise distinct under ==
		var keys []*Val
		seen := map[string]bool{}
		for _, k := range kp {
			c := k.canon()
			if !seen[c] {
				seen[c] = true
				keys = append(keys, k)
			}
			if len(keys) == 3 {
				break
			}
		}
		vals := g.take(g.pool(t.Elem, env, depth-1), 3)
		v0 := vals[0]
		v1 := vals[len(vals)-1]
		if len(vals) > 1 {
			v1 = vals[1]
		}
		mk := func(kvs ...*Val) *Val {
			m := &Val{K: "m", Loc: g.Fresh()}
			for i := 0; i+1 < len(kvs); i += 2 {
				m.KVs = append(m.KVs, [2]*Val{g.cl(kvs[i]), g.cl(kvs[i+1])})
			}
			return m
		}
		k0 := keys[0]
		out = append(out, mk(k0, v0), mk(k0, v1))
		if len(keys) > 1 {
			k1 := keys[1]
			out = append(out, mk(k1, v0), mk(k0, v0, k1, v1), mk(k1, v1, k0, v0), mk(k0, v1, k1, v0), mk(k0, v0, k1, v0))
			if len(keys) > 2 {
				k2 := keys[2]
				out = append(out, mk(k0, v0, k1, v1, k2, v0), mk(k2, v0, k1, v1, k0, v0), mk(k2, v1, k0, v0, k1, v1), mk(k0, v0, k2, v1))
				// same length, overlapping but different key sets, values under the shared key in both orders
				out = append(out, mk(k1, v0, k2, v1), mk(k1, v1, k2, v0), mk(k0, v1, k2, v0), mk(k2, v0, k1, v1))
			}
		}
		// an element value that owns memory (the first pool entries of slices/maps are nil and empty)
		ep := g.pool(t.Elem, env, depth-1)
		rich := ep[0]
		for _, c := range ep {
			if len(c.Sexp()) > len(rich.Sexp()) {
				rich = c
			}
		}
		if rich != ep[0] {
			out = append(out, mk(k0, rich))
			if len(keys) > 1 {
				out = append(out, mk(keys[1], v0, k0, rich), mk(k0, rich, keys[1], rich))
				// two entries that own memory of the same shape but with different contents
				rich2 := ep[0]
				for _, c := range ep {
					if c != rich && len(c.Sexp()) > len(rich2.Sexp()) {
						rich2 = c
					}
				}
				if rich2 != ep[0] {
					out = append(out, mk(k0, rich, keys[1], rich2), mk(keys[1], rich2, k0, rich))
				}
			}
		}
		// two different string keys with the same derived hash (31*'A'+'a' = 31*'B'+'B')
		if u := t.Key.Under(env); u.K == KBasic && u.Basic == "string" {
			out = append(out, mk(vs("Aa"), v0, vs("BB"), v1), mk(vs("BB"), v1, vs("Aa"), v0), mk(vs("BB"), v0, vs("Aa"), v1))
		}
		// a map with more entries than any small constant, populated in two different orders
		if u := t.Key.Under(env); u.K == KBasic {
			var big []*Val
			switch u.Basic {
			case "int", "int16", "int32", "int64", "uint", "uint16", "uint32", "uint64":
				for i := 0; i < 70; i++ {
					big = append(big, vi(int64(1000+7*i)))
				}
			case "string":
				for i := 0; i < 70; i++ {
					big = append(big, vs(fmt.Sprintf("k%02d", (i*37)%70)))
				}
			}
			if big != nil {
				var fw, bw []*Val
				for i := range big {
					v := v0
					if i%3 == 1 {
						v = v1
					}
					fw = append(fw, big[i], v)
				}
				for i := len(big) - 1; i >= 0; i-- {
					bw = append(bw, fw[2*i], fw[2*i+1])
				}
				out = append(out, mk(fw...), mk(bw...))
			}
		}
		// a -0 key where +0 is in the pool (same key under ==, different bits)
		for _, k := range kp {
			if k.K == "f" && k.Mag == 0 && k.Neg {
				out = append(out, mk(k, v0))
			}
		}
		return out
	case KStruct:
		base := &Val{K: "st"}
		var subs [][]*Val
		for _, f := range t.Fields {
			s := g.take(g.pool(f.T, env, depth), 4)
			subs = append(subs, s)
			base.Elems = append(base.Elems, g.cl(s[0]))
		}
		out := []*Val{base}
		for i := range t.Fields {
			for _, alt := range subs[i][1:] {
				c := g.cl(base)
				c.Elems[i] = g.cl(alt)
				out = append(out, c)
			}
		}
		if len(t.Fields) > 1 {
			c := &Val{K: "st"}
			for i := range t.Fields {
				c.Elems = append(c.Elems, g.cl(subs[i][len(subs[i])-1]))
			}
			out = append(out, c)
		}
		return out
	}
	panic("pool")
}
