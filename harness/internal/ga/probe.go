package ga

import (
	"fmt"
	"path/filepath"
	"strings"

	"verifharness/internal/hx"
)

// ProbeResult: what goderive and the Go type checker say about one type with the given calls.
type ProbeResult struct {
	GenExit  int
	GenClass string // ok | add-error | generator-error | cannot-generate | load-error | panic | timeout | other-error
	GenOut   string
	VetOK    bool
	VetOut   string
	Derived  string
}

func ClassifyGoderive(r hx.RunResult) string {
	switch {
	case r.TimedOut:
		return "timeout"
	case r.Exit == 0:
		return "ok"
	case strings.Contains(r.Out, "panic:") || strings.Contains(r.Out, "goroutine ") || strings.Contains(r.Out, "fatal error:") || strings.Contains(r.Out, "signal:"):
		return "panic"
	case strings.Contains(r.Out, "Generator Error"):
		return "generator-error"
	case strings.Contains(r.Out, "Add Error"):
		return "add-error"
	case strings.Contains(r.Out, "cannot generate"):
		return "cannot-generate"
	case strings.Contains(r.Out, "load") || strings.Contains(r.Out, "no initial packages"):
		return "load-error"
	}
	return "other-error"
}

// Probe runs goderive (and go vet on success) on one singleton package per type, in parallel.
func Probe(goderive, work string, types []*Type, calls []Call, vet bool) []ProbeResult {
	out := make([]ProbeResult, len(types))
	hx.Parallel(len(types), 16, func(i int) {
		p := &Pkg{Dir: filepath.Join(work, fmt.Sprintf("probe%04d", i)), Types: []*Type{types[i]}, Idx: []int{i}, Calls: calls}
		if err := p.Write(); err != nil {
			out[i] = ProbeResult{GenExit: -3, GenClass: "harness-error", GenOut: err.Error()}
			return
		}
		g := p.Generate(goderive)
		if c := ClassifyGoderive(g); c == "other-error" || c == "timeout" {
			// not a diagnostic of goderive: retry once (process start failures under load), keep the output
			first := g
			g = p.Generate(goderive)
			if ClassifyGoderive(g) != c {
				g.Out += "\n[first attempt: exit " + fmt.Sprint(first.Exit) + " " + hx.Truncate(first.Out, 300) + "]"
			}
		}
		res := ProbeResult{GenExit: g.Exit, GenClass: ClassifyGoderive(g), GenOut: hx.Truncate(g.Out, 2000)}
		if g.Exit == 0 {
			res.Derived = p.Derived()
			if vet {
				v := hx.GoVet(p.Dir, "", "./...")
				res.VetOK = v.Exit == 0
				res.VetOut = hx.Truncate(v.Out, 2000)
			}
		}
		out[i] = res
	})
	return out
}
