package ga

// extra_hA.go — additions of hardening round 4 (C01/C06); nothing here changes what the existing
// functions of this package return.
//
//  1. Declaration FORMS: a Named node of the type grammar is normally declared `type Name U`.
//     Two further ways in which Go source introduces a name for a type are modelled here without
//     touching the grammar (for the Coq side the node is an ordinary named type with the
//     instantiated / aliased underlying type):
//       - an INSTANCE of a generic type  (type Opt[T any] struct{ F0 bool; F1 *T }  used as Opt[int],
//         Opt[string], … — all instances of one generic type share one *types.TypeName);
//       - a type ALIAS  (type Node = node, type Conn = impl.Conn with impl an internal package): the
//         name the user (and the text of GoString) writes is the alias, the target may be a name that
//         cannot be written elsewhere.
//     DeclSourceHA prints the declarations of a package like DeclSource, forms included.
//  2. Boundary STRINGS that mix the features on which ways of quoting a string differ, and
//     MutateStrings, which plants them at every string leaf of a value.

import (
	"fmt"
	"sort"
	"strings"
	"sync"
)

// HAForm says how the Named type with this ID is declared.
type HAForm struct {
	// generic instance
	Generic     string  // name of the generic type ("" if not an instance)
	Args        []*Type // the type arguments
	GenericDecl string  // source of the generic declaration (the same for every instance)
	// alias
	AliasOf     string // right-hand side of `type Name = AliasOf` ("" if not an alias)
	TargetDecl  string // declaration of the target when it lives in the same package
	InternalPkg string // name of the internal package that declares the target ("" if none)
	InternalSrc string // the declaration of the target there
}

var (
	haMu    sync.RWMutex
	haForms = map[int]*HAForm{}
)

// HAFormOf returns the declaration form of a Named type, nil for a plain `type Name U`.
func HAFormOf(id int) *HAForm {
	haMu.RLock()
	defer haMu.RUnlock()
	return haForms[id]
}

func setForm(id int, f *HAForm) {
	haMu.Lock()
	haForms[id] = f
	haMu.Unlock()
}

// GenericInst builds the instance generic[args...] of
//
//	type generic[params...] <body(self, placeholders)>
//
// params are written as in Go ("T any", "K comparable"); body receives a reference to the type
// itself (for recursive generic types) and the type arguments.
func GenericInst(id int, generic string, params []string, args []*Type, body func(self *Type, args []*Type) *Type) *Type {
	var spelled, pnames []string
	for _, a := range args {
		spelled = append(spelled, a.Go(0))
	}
	var ph []*Type
	for _, p := range params {
		n := strings.Fields(p)[0]
		pnames = append(pnames, n)
		ph = append(ph, B(n)) // a type parameter is spelled by its name
	}
	n := Named(id, generic+"["+strings.Join(spelled, ", ")+"]", 0, nil)
	n.Elem = body(Ref(n), args)
	self := &Type{K: KRef, ID: id, Name: generic + "[" + strings.Join(pnames, ", ") + "]"}
	decl := "type " + generic + "[" + strings.Join(params, ", ") + "] " + body(self, ph).goDecl(0) + "\n\n"
	setForm(id, &HAForm{Generic: generic, Args: args, GenericDecl: decl})
	return n
}

// AliasLocal: `type hidden <body>` + `type alias = hidden` in the same package.
func AliasLocal(id int, alias, hidden string, body func(self *Type) *Type) *Type {
	n := Named(id, alias, 0, nil)
	n.Elem = body(Ref(n))
	setForm(id, &HAForm{AliasOf: hidden, TargetDecl: "type " + hidden + " " + n.Elem.goDecl(0) + "\n\n"})
	return n
}

// AliasInternal: `type name = pkg.name` where pkg is an internal package below the package of the
// alias, which declares `type name <body>`.  body may only use predeclared types: a reference to the
// type itself would be written impl.name inside impl — a name that no package outside can use, so a
// value of such a type has no text that compiles elsewhere (outside C06's quantifier).
func AliasInternal(id int, name, pkg string, body func(self *Type) *Type) *Type {
	n := Named(id, name, 0, nil)
	n.Elem = body(Ref(n))
	setForm(id, &HAForm{AliasOf: pkg + "." + name, InternalPkg: pkg,
		InternalSrc: "type " + name + " " + n.Elem.goDecl(0) + "\n\n"})
	return n
}

// DeclSourceHA is DeclSource for declaration sets that may contain forms.  libPath is the import
// path of the package the declarations are printed for; imports are the import lines the forms need
// and files the further source files (path relative to the directory of that package).
func DeclSourceHA(decls map[int]*Type, pkg int, libPath string) (src string, imports []string, files map[string]string) {
	plain := map[int]*Type{}
	var ids []int
	for id, d := range decls {
		if d.Ext != pkg {
			continue
		}
		if HAFormOf(id) == nil {
			plain[id] = d
		} else {
			ids = append(ids, id)
		}
	}
	sort.Ints(ids)
	var b strings.Builder
	b.WriteString(DeclSource(plain, pkg))
	files = map[string]string{}
	seenGeneric := map[string]bool{}
	seenImport := map[string]bool{}
	for _, id := range ids {
		d, f := decls[id], HAFormOf(id)
		switch {
		case f.Generic != "":
			if !seenGeneric[f.Generic] {
				seenGeneric[f.Generic] = true
				b.WriteString(f.GenericDecl)
			}
		case f.AliasOf != "":
			b.WriteString(f.TargetDecl)
			fmt.Fprintf(&b, "type %s = %s\n\n", d.Name, f.AliasOf)
			if f.InternalPkg != "" {
				line := fmt.Sprintf("%q", libPath+"/internal/"+f.InternalPkg)
				if !seenImport[line] {
					seenImport[line] = true
					imports = append(imports, line)
				}
				name := "internal/" + f.InternalPkg + "/" + f.InternalPkg + ".go"
				if files[name] == "" {
					files[name] = "package " + f.InternalPkg + "\n\n"
				}
				files[name] += f.InternalSrc
			}
		}
	}
	return b.String(), imports, files
}

// RefSexp prints a type like Sexp but a named type as (ref ID): the form in which a type
// expression that is read back from source is printed.
func (t *Type) RefSexp() string {
	switch t.K {
	case KNamed, KRef:
		return fmt.Sprintf("(ref %d)", t.ID)
	case KPtr:
		return "(ptr " + t.Elem.RefSexp() + ")"
	case KSlice:
		return "(slice " + t.Elem.RefSexp() + ")"
	case KArray:
		return fmt.Sprintf("(array %d %s)", t.N, t.Elem.RefSexp())
	case KMap:
		return "(map " + t.Key.RefSexp() + " " + t.Elem.RefSexp() + ")"
	case KStruct:
		var b strings.Builder
		b.WriteString("(struct")
		for _, f := range t.Fields {
			fmt.Fprintf(&b, " (%d %s)", b2i(f.Priv), f.T.RefSexp())
		}
		b.WriteString(")")
		return b.String()
	}
	return t.Sexp()
}

// ---------- the families of round 4 ----------

// HAFamilies returns groups of types; the types of one group must be generated in ONE package (the
// instances of a generic type only meet there).  IDs 300–399.
func HAFamilies(c *Catalogue) [][]*Type {
	i, s := B("int"), B("string")
	// type Opt[T any] struct { F0 bool; F1 *T }
	opt := func(id int, a *Type) *Type {
		return GenericInst(id, "Opt", []string{"T any"}, []*Type{a}, func(self *Type, as []*Type) *Type { return St(B("bool"), P(as[0])) })
	}
	optI, optS, optS0, optSl, optN := opt(300, i), opt(301, s), opt(302, c.S0), opt(303, Sl(i)), opt(304, c.NStr)
	// type Pair[K comparable, V any] struct { F0 K; F1 V; F2 map[K]V; F3 []V }
	pair := func(id int, k, v *Type) *Type {
		return GenericInst(id, "Pair", []string{"K comparable", "V any"}, []*Type{k, v},
			func(self *Type, as []*Type) *Type { return St(as[0], as[1], M(as[0], as[1]), Sl(as[1])) })
	}
	pSI, pIS, pNP, pS0 := pair(310, s, i), pair(311, i, s), pair(312, c.NStr, P(c.S0)), pair(313, c.S0, Sl(s))
	// type List[T any] struct { F0 T; F1 *List[T] }  — recursive
	lst := func(id int, a *Type) *Type {
		return GenericInst(id, "List", []string{"T any"}, []*Type{a}, func(self *Type, as []*Type) *Type { return St(as[0], P(self)) })
	}
	lI, lS, lO := lst(320, i), lst(321, s), lst(322, optS)
	// generic types that are not structs
	vec := func(id int, a *Type) *Type {
		return GenericInst(id, "Vec", []string{"T any"}, []*Type{a}, func(self *Type, as []*Type) *Type { return Sl(as[0]) })
	}
	tab := func(id int, k, v *Type) *Type {
		return GenericInst(id, "Tab", []string{"K comparable", "V any"}, []*Type{k, v}, func(self *Type, as []*Type) *Type { return M(as[0], as[1]) })
	}
	vI, vS, vS0 := vec(330, i), vec(331, s), vec(332, c.S0)
	tSI, tIP := tab(335, s, i), tab(336, i, P(s))
	// type Box[T any] struct { F0 T; F1 []T; F2 [2]T }: the same field printed inline (%#v), element by
	// element or through a helper depending on the argument
	box := func(id int, a *Type) *Type {
		return GenericInst(id, "Box", []string{"T any"}, []*Type{a}, func(self *Type, as []*Type) *Type { return St(as[0], Sl(as[0]), Ar(2, as[0])) })
	}
	bI, bS, bP, bS0, bF := box(340, i), box(341, s), box(342, P(i)), box(343, c.S0), box(344, B("float64"))
	g1 := []*Type{optI, optS, P(optS), optS0, optSl, optN, Sl(optI), St(optI, optS), M(s, optS), pSI, pIS, P(pNP), pS0, Sl(pIS)}
	g2 := []*Type{lI, P(lS), lO}
	g3 := []*Type{vI, vS, vS0, P(vS), tSI, tIP, St(vI, tSI), bI, bS, P(bP), bS0, bF, Ar(2, bS)}
	// aliases
	node := AliasLocal(350, "Node", "node", func(self *Type) *Type { return St(i, P(self), Sl(s)) })
	leaf := AliasLocal(351, "Leaf", "leaf", func(self *Type) *Type { return St(s, M(s, i)) })
	conn := AliasInternal(352, "Conn", "impl", func(self *Type) *Type { return St(s, P(i), Sl(s), M(s, B("float64"))) })
	opts := AliasInternal(353, "Options", "impl", func(self *Type) *Type { return St(B("bool"), Sl(B("uint8")), P(s)) })
	aliases := []*Type{
		node, P(node), Sl(node), M(s, P(node)), leaf, Ar(2, leaf), St(leaf, P(leaf), i),
		conn, P(conn), M(i, conn), opts, P(opts), Sl(P(opts)), St(s, conn, P(opts)),
	}
	return [][]*Type{g1, g2, g3, aliases}
}

// ---------- strings ----------

// HAStrings: strings on which the ways of writing a Go string literal differ (interpreted vs raw
// literal, %q vs %+q vs %#q, strconv.CanBackquote): line ends, backquotes, quotes, carriage returns,
// invalid UTF-8, NUL, BOM, other control and format characters — alone and in combination.
func HAStrings() []string {
	parts := []string{"\n", "\r", "\r\n", "`", "\"", "'", "\\", "\t", "\x00", "\xff", "\xc3", "\ufeff", "\u2028", "\x7f", "\x1b", "%", "é", "\u00a0", "\U0001F600", "\xed\xa0\x80"}
	out := []string{
		"first\r\nsecond\r\n", "first\nsecond \xff\n", "nul\n\x00", "\ufeff\n", "a\nb", "a\n`b`", "a\n\"b\"", "`", "``\n", "\n", "\r", "tab\there\n",
		"line\n\u2028sep", "del\x7f\n", "esc\x1b[0m\n", "%d %s\n", "%!v(BADINDEX)\n", "back\\slash\nn", "\\n", "\\x00\n", "say \"hi\"", "it's\n",
	}
	for _, a := range parts {
		for _, b := range parts {
			if a != b {
				out = append(out, "x"+a+"y"+b)
			}
		}
	}
	return out
}

// MutateStrings returns a copy of v (fresh labels from fresh) in which every string that is not a map
// key is replaced by pick().  Map keys stay (they must remain pairwise distinct); shared pointers stay
// shared.
func MutateStrings(v *Val, fresh func() int, pick func() string) (*Val, int) {
	c := v.Clone(fresh)
	n := 0
	done := map[int]*Val{}
	var rec func(x *Val)
	rec = func(x *Val) {
		switch x.K {
		case "s":
			x.Str = []byte(pick())
			n++
			return
		case "p", "sl", "m":
			if d, ok := done[x.Loc]; ok {
				// a second occurrence of the same object: same contents
				x.Elems, x.Spare, x.KVs = d.Elems, d.Spare, d.KVs
				return
			}
			done[x.Loc] = x
		}
		for _, e := range x.Elems {
			rec(e)
		}
		for _, e := range x.Spare {
			rec(e)
		}
		for _, kv := range x.KVs {
			rec(kv[1])
		}
	}
	rec(c)
	return c, n
}
