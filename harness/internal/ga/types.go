// Package ga — shared machinery of the "Group A" properties (C01–C06, C13, C14, C18): the
// type grammar, value pools, scratch packages with goderive calls, and the driver runtime
// that builds values by reflection and calls the generated functions.
package ga

import (
	"fmt"
	"sort"
	"strings"

	"verifharness/internal/hx"
)

type Kind int

const (
	KBasic Kind = iota
	KNamed
	KRef
	KPtr
	KSlice
	KArray
	KMap
	KStruct
)

type Field struct {
	Name string
	Priv bool
	T    *Type
}

// Type is a closed type term (mirrors Go/Ty.v).  A Named node carries its underlying type;
// Ref points back to an enclosing Named with the same ID.
type Type struct {
	K      Kind
	Basic  string // Go spelling of a basic type
	ID     int    // Named / Ref
	Name   string // Named / Ref: Go identifier
	Ext    int    // Named / Ref: 0 = local, 1 = p/x1/ext, 2 = p/x2/ext
	Elem   *Type  // Named underlying, Ptr, Slice, Array, Map value
	Key    *Type
	N      int
	Fields []Field
	// Methods: Go source of the methods declared on a Named type (printed after its declaration)
	Methods string
	// ExtraVals: values appended to the pool of a Named type (set for the magnitude-method types only)
	ExtraVals []*Val
}

func B(s string) *Type        { return &Type{K: KBasic, Basic: s} }
func P(t *Type) *Type         { return &Type{K: KPtr, Elem: t} }
func Sl(t *Type) *Type        { return &Type{K: KSlice, Elem: t} }
func Ar(n int, t *Type) *Type { return &Type{K: KArray, N: n, Elem: t} }
func M(k, v *Type) *Type      { return &Type{K: KMap, Key: k, Elem: v} }
func Ref(n *Type) *Type       { return &Type{K: KRef, ID: n.ID, Name: n.Name, Ext: n.Ext} }
func Named(id int, name string, ext int, u *Type) *Type {
	return &Type{K: KNamed, ID: id, Name: name, Ext: ext, Elem: u}
}
func St(ts ...*Type) *Type {
	t := &Type{K: KStruct}
	for i, f := range ts {
		t.Fields = append(t.Fields, Field{Name: fmt.Sprintf("F%d", i), T: f})
	}
	return t
}

// StP: struct whose fields marked in priv are unexported.
func StP(priv []bool, ts ...*Type) *Type {
	t := St(ts...)
	for i := range t.Fields {
		if i < len(priv) && priv[i] {
			t.Fields[i].Priv = true
			t.Fields[i].Name = fmt.Sprintf("f%d", i)
			if i%4 == 3 { // unexported is "does not start with an upper-case letter", not "starts with a lower-case one"
				t.Fields[i].Name = fmt.Sprintf("_f%d", i)
			}
		}
	}
	return t
}

var basicSexp = map[string]string{
	"bool": "bool", "int": "(int 64 1)", "int8": "(int 8 1)", "int16": "(int 16 1)", "int32": "(int 32 1)",
	"int64": "(int 64 1)", "uint": "(int 64 0)", "uint8": "(int 8 0)", "byte": "(int 8 0)", "uint16": "(int 16 0)",
	"uint32": "(int 32 0)", "uint64": "(int 64 0)", "uintptr": "(int 64 0)", "rune": "(int 32 1)",
	"float32": "f32", "float64": "f64", "complex64": "c64", "complex128": "c128", "string": "string",
}

func b2i(b bool) int {
	if b {
		return 1
	}
	return 0
}

// Sexp prints the type in the interchange format of Go/Ty.v (parse_ty).
func (t *Type) Sexp() string {
	switch t.K {
	case KBasic:
		return basicSexp[t.Basic]
	case KNamed:
		return fmt.Sprintf("(named %d %d %s)", t.ID, b2i(t.Ext != 0), t.Elem.Sexp())
	case KRef:
		return fmt.Sprintf("(ref %d)", t.ID)
	case KPtr:
		return "(ptr " + t.Elem.Sexp() + ")"
	case KSlice:
		return "(slice " + t.Elem.Sexp() + ")"
	case KArray:
		return fmt.Sprintf("(array %d %s)", t.N, t.Elem.Sexp())
	case KMap:
		return "(map " + t.Key.Sexp() + " " + t.Elem.Sexp() + ")"
	case KStruct:
		var b strings.Builder
		b.WriteString("(struct")
		for _, f := range t.Fields {
			fmt.Fprintf(&b, " (%d %s)", b2i(f.Priv), f.T.Sexp())
		}
		b.WriteString(")")
		return b.String()
	}
	return "?"
}

var extPkgName = "ext"
var ExtPaths = map[int]string{1: "p/x1/ext", 2: "p/x2/ext"}
var extAlias = map[int]string{1: "ext", 2: "ext2"} // alias used in user files of package main

// Go prints the type as Go source seen from package `from` (0 = the main scratch package).
func (t *Type) Go(from int) string {
	switch t.K {
	case KBasic:
		return t.Basic
	case KNamed, KRef:
		if t.Ext == from {
			return t.Name
		}
		return extAlias[t.Ext] + "." + t.Name
	case KPtr:
		return "*" + t.Elem.Go(from)
	case KSlice:
		return "[]" + t.Elem.Go(from)
	case KArray:
		return fmt.Sprintf("[%d]%s", t.N, t.Elem.Go(from))
	case KMap:
		return "map[" + t.Key.Go(from) + "]" + t.Elem.Go(from)
	case KStruct:
		var b strings.Builder
		b.WriteString("struct {")
		for i, f := range t.Fields {
			if i > 0 {
				b.WriteString("; ")
			} else {
				b.WriteString(" ")
			}
			b.WriteString(f.Name + " " + f.T.Go(from))
		}
		if len(t.Fields) > 0 {
			b.WriteString(" ")
		}
		b.WriteString("}")
		return b.String()
	}
	return "?"
}

// Decls collects the Named nodes occurring in t (by ID).
func (t *Type) Decls(into map[int]*Type) {
	switch t.K {
	case KNamed:
		if _, ok := into[t.ID]; ok {
			return
		}
		into[t.ID] = t
		t.Elem.Decls(into)
	case KPtr, KSlice, KArray:
		t.Elem.Decls(into)
	case KMap:
		t.Key.Decls(into)
		t.Elem.Decls(into)
	case KStruct:
		for _, f := range t.Fields {
			f.T.Decls(into)
		}
	}
}

// UsesExt reports which external packages the spelling of t (from main) mentions.
func (t *Type) UsesExt(into map[int]bool) {
	switch t.K {
	case KNamed, KRef:
		if t.Ext != 0 {
			into[t.Ext] = true
		}
	case KPtr, KSlice, KArray:
		t.Elem.UsesExt(into)
	case KMap:
		t.Key.UsesExt(into)
		t.Elem.UsesExt(into)
	case KStruct:
		for _, f := range t.Fields {
			f.T.UsesExt(into)
		}
	}
}

// Under resolves Named/Ref to the underlying node, given the enclosing declarations.
func (t *Type) Under(env map[int]*Type) *Type {
	switch t.K {
	case KNamed:
		return t.Elem
	case KRef:
		return env[t.ID].Elem
	}
	return t
}

// Comparable = derive.IsComparable / canEqual (Go/Ty.v can_equal).
func (t *Type) Comparable() bool {
	switch t.K {
	case KBasic:
		return true
	case KNamed:
		return t.Elem.Comparable()
	case KArray:
		return t.Elem.Comparable()
	case KStruct:
		for _, f := range t.Fields {
			if !f.T.Comparable() {
				return false
			}
		}
		return true
	}
	return false
}

func (t *Type) Depth() int {
	d := 0
	switch t.K {
	case KBasic, KRef:
		return 0
	case KNamed:
		return t.Elem.Depth()
	case KPtr, KSlice, KArray:
		d = t.Elem.Depth()
	case KMap:
		d = max(t.Key.Depth(), t.Elem.Depth())
	case KStruct:
		for _, f := range t.Fields {
			d = max(d, f.T.Depth())
		}
	}
	return d + 1
}

// ---------- the catalogue of declarations ----------

type Catalogue struct {
	NInt, NStr, NBool, NF64, NU8, NC128, NU64  *Type
	S0, SP, Rec, MA, SE, NSl, NMap, NArr, NPtr *Type
	E1, E2, E3, E4, TwA, TwB                   *Type
	ME, MP                                     *Type // named structs with user Equal/Compare methods (Go/Methods.v)
	MG, MGP                                    *Type // ... whose Compare returns a magnitude and orders by the SECOND field (C13)
	WithMethods                                bool
	// WithMagMethods (C13 only; C03 demands results in -1/0/+1 of the types it runs): adds MG and MGP to
	// the leaves and ME, MG to the key leaves
	WithMagMethods bool
	// MW: named structs WITHOUT methods whose fields have them (derived Compare refuses unnamed structs, so a
	// method type in field position needs a named wrapper); not among the leaves, used by C13's battery
	MW  []*Type
	All []*Type
}

func NewCatalogue() *Catalogue {
	c := &Catalogue{}
	c.NInt = Named(1, "NInt", 0, B("int"))
	c.NStr = Named(2, "NStr", 0, B("string"))
	c.NBool = Named(3, "NBool", 0, B("bool"))
	c.NF64 = Named(4, "NF64", 0, B("float64"))
	c.NU8 = Named(5, "NU8", 0, B("uint8"))
	c.NC128 = Named(6, "NC128", 0, B("complex128"))
	c.NU64 = Named(7, "NU64", 0, B("uint64"))
	c.S0 = Named(10, "S0", 0, St(B("int"), B("string")))
	c.SP = Named(11, "SP", 0, StP([]bool{false, true, false}, P(B("int")), Sl(B("string")), M(B("string"), B("int"))))
	rec := Named(12, "Rec", 0, nil)
	rec.Elem = St(B("int"), P(Ref(rec)), Sl(Ref(rec)))
	c.Rec = rec
	ma := Named(13, "MA", 0, nil)
	mb := Named(14, "MB", 0, nil)
	mb.Elem = St(Ref(ma), Sl(Ref(ma)))
	ma.Elem = St(P(mb), B("int8"))
	c.MA = ma
	c.SE = Named(15, "SE", 0, St())
	c.NSl = Named(16, "NSl", 0, Sl(B("int")))
	c.NMap = Named(17, "NMap", 0, M(B("string"), B("int")))
	c.NArr = Named(18, "NArr", 0, Ar(2, B("string")))
	c.NPtr = Named(19, "NPtr", 0, P(B("int")))
	c.E1 = Named(30, "E1", 1, StP([]bool{false, true, false, true}, B("int"), B("string"), P(B("int")), Sl(B("int"))))
	c.E2 = Named(31, "E2", 2, StP([]bool{false, true}, B("string"), B("float64")))
	c.E3 = Named(32, "E3", 1, St(B("int"), B("bool")))
	c.E4 = Named(33, "E4", 2, StP([]bool{true, true}, B("int"), B("string"))) // imported, every field unexported
	// the same type name in two imported packages of the same package name: one flat, one owning memory
	c.TwA = Named(34, "Tw", 1, St(B("int"), B("bool")))
	c.TwB = Named(35, "Tw", 2, St(Sl(B("int")), P(B("int")), M(B("string"), B("int"))))
	// ids 100..199: value receiver/parameter; 200..299: pointer receiver/parameter (Go/Methods.v);
	// the methods look at the first field only
	c.ME = Named(100, "ME", 0, St(B("int"), B("string")))
	c.ME.Methods = "func (a ME) Equal(b ME) bool { return a.F0 == b.F0 }\n\n" +
		"func (a ME) Compare(b ME) int {\n\tif a.F0 < b.F0 {\n\t\treturn -1\n\t}\n\tif a.F0 > b.F0 {\n\t\treturn 1\n\t}\n\treturn 0\n}\n\n"
	c.MP = Named(200, "MP", 0, St(B("string"), Sl(B("int"))))
	c.MP.Methods = "func (a *MP) Equal(b *MP) bool {\n\tif a == nil || b == nil {\n\t\treturn a == nil && b == nil\n\t}\n\treturn a.F0 == b.F0\n}\n\n" +
		"func (a *MP) Compare(b *MP) int {\n\tif a == nil {\n\t\tif b == nil {\n\t\t\treturn 0\n\t\t}\n\t\treturn -1\n\t}\n\tif b == nil {\n\t\treturn 1\n\t}\n" +
		"\tif a.F0 < b.F0 {\n\t\treturn -1\n\t}\n\tif a.F0 > b.F0 {\n\t\treturn 1\n\t}\n\treturn 0\n}\n\n"
	// ids 300..349 / 350..399: value / pointer receiver and parameter; Compare returns a difference, not
	// -1/0/+1, and looks at the second field only (the first field is an insignificant label, so the
	// method's order is NOT the field-by-field order); int16 so that the difference cannot overflow
	c.MG = Named(300, "MG", 0, St(B("string"), B("int16")))
	c.MG.Methods = "func (a MG) Equal(b MG) bool { return a.F1 == b.F1 }\n\n" +
		"func (a MG) Compare(b MG) int { return int(a.F1) - int(b.F1) }\n\n"
	c.MGP = Named(350, "MGP", 0, St(B("string"), B("int16"), Sl(B("int"))))
	c.MGP.Methods = "func (a *MGP) Equal(b *MGP) bool {\n\tif a == nil || b == nil {\n\t\treturn a == nil && b == nil\n\t}\n\treturn a.F1 == b.F1\n}\n\n" +
		"func (a *MGP) Compare(b *MGP) int {\n\tif a == nil {\n\t\tif b == nil {\n\t\t\treturn 0\n\t\t}\n\t\treturn -1\n\t}\n\tif b == nil {\n\t\treturn 1\n\t}\n" +
		"\treturn int(a.F1) - int(b.F1)\n}\n\n"
	// labels ordered opposite to the keys, equal keys under different labels, keys far apart
	mg := func(lab string, k int64, rest ...*Val) *Val {
		return &Val{K: "st", Elems: append([]*Val{vs(lab), vi(k)}, rest...)}
	}
	c.MG.ExtraVals = []*Val{mg("z", 1), mg("a", 5), mg("b", 1), mg("c", 5), mg("zz", -300), mg("", 300)}
	nils := func() *Val { return &Val{K: "nils"} }
	c.MGP.ExtraVals = []*Val{mg("z", 1, nils()), mg("a", 5, nils()), mg("b", 1, nils()), mg("c", 5, nils()), mg("zz", -300, nils()), mg("", 300, nils())}
	c.MW = []*Type{
		Named(40, "WE", 0, St(c.ME, B("int"))),                                // this.F0.Compare(that.F0)
		Named(41, "WP", 0, St(B("bool"), P(c.MP))),                            // pointer field, pointer-parameter method
		Named(42, "WG", 0, St(c.MG, B("string"))),                             // the magnitude is passed through
		Named(43, "WGP", 0, St(B("int8"), P(c.MGP), c.MGP)),                   // this.F1.Compare(that.F1), this.F2.Compare(&that.F2)
		Named(44, "WEP", 0, St(P(c.ME), c.MP)),                                // pointer to a value-parameter method: field-wise helper
		Named(45, "WGG", 0, St(Sl(c.MG), M(B("string"), c.MGP), Ar(2, c.MG))), // methods below slice / map / array fields
	}
	c.All = []*Type{c.NInt, c.NStr, c.NBool, c.NF64, c.NU8, c.NC128, c.NU64, c.S0, c.SP, c.Rec, c.MA, c.SE, c.NSl, c.NMap, c.NArr, c.NPtr, c.E1, c.E2, c.E3, c.E4}
	return c
}

// Leaves: the depth-0 types shapes are built from.
func (c *Catalogue) Leaves() []*Type {
	l := c.leaves()
	if c.WithMethods {
		l = append(l, c.ME, c.MP)
	}
	if c.WithMagMethods {
		l = append(l, c.MG, c.MGP)
	}
	return l
}

func (c *Catalogue) leaves() []*Type {
	return []*Type{B("bool"), B("int"), B("int8"), B("uint8"), B("int32"), B("uint64"), B("float32"), B("float64"),
		B("complex64"), B("complex128"), B("string"),
		c.NInt, c.NStr, c.NBool, c.NF64, c.NU8, c.NU64, c.S0, c.SP, c.Rec, c.MA, c.SE, c.NSl, c.NMap, c.NArr, c.NPtr, c.E1, c.E2, c.E3, c.E4}
}

// KeyLeaves: value (comparable, pointer-free) types usable as map keys.
func (c *Catalogue) KeyLeaves() []*Type {
	k := []*Type{B("bool"), B("int"), B("uint8"), B("float64"), B("string"), B("complex128"), c.NInt, c.NStr, c.NBool, c.S0, c.NArr, c.E3,
		Ar(2, B("int")), St(B("int"), B("string"))}
	if c.WithMagMethods {
		k = append(k, c.ME, c.MG) // comparable structs with a value-parameter Compare method
	}
	return k
}

// Special: depth-2/3 shapes that take paths of their own in the generators (an array in a map value is
// not addressable; named arrays; pointer to pointer; nested slices/maps) — part of every tier.
func (c *Catalogue) Special() []*Type {
	l := c.special()
	if c.WithMethods {
		// a type with its own Equal/Compare methods inside composites that == could compare
		l = append(l, Ar(2, Ar(2, c.ME)), St(Ar(2, c.ME), B("int")), Ar(2, St(c.ME, B("int"))), Named(25, "HME", 0, St(B("string"), Ar(2, c.ME))))
	}
	return l
}

func (c *Catalogue) special() []*Type {
	nrow := Named(20, "NRow", 0, Ar(2, Sl(B("int"))))
	// recursion through a map: the generated function for the map type re-enters itself
	recm := Named(21, "RecM", 0, nil)
	recm.Elem = St(B("int"), M(B("string"), P(Ref(recm))))
	recv := Named(22, "RecV", 0, nil)
	recv.Elem = St(M(B("int"), Ref(recv)), Sl(B("string")))
	return []*Type{
		recm, P(recm), recv, M(B("string"), recv),
		M(B("string"), Ar(2, Sl(B("int")))), M(B("int"), Ar(2, P(B("int")))), M(B("string"), Ar(2, M(B("string"), B("int")))),
		M(B("string"), nrow), nrow, Sl(nrow), M(B("string"), Ar(2, B("int"))),
		Sl(Ar(2, P(c.S0))), P(P(c.S0)), M(B("string"), Sl(Sl(B("int")))), Sl(M(B("string"), Sl(B("int")))),
		M(B("string"), St(Sl(B("int")), B("int"))), Sl(St(Sl(B("int")), P(B("int")))),
		St(c.TwA, c.TwB), Sl(St(c.TwA, c.TwB)), M(B("string"), St(c.TwA, c.TwB)), P(St(c.TwA, Sl(c.TwB))),
	}
}

// Over applies every constructor to the given element types.
func (c *Catalogue) Over(elems []*Type, r *hx.Rand) []*Type {
	var out []*Type
	keys := c.KeyLeaves()
	for i, e := range elems {
		out = append(out, P(e), Sl(e), Ar(2, e), M(keys[i%len(keys)], e), M(hx.Pick(r, keys), e))
		other := elems[(i*7+3)%len(elems)]
		out = append(out, St(e, other), StP([]bool{false, true}, other, e))
	}
	for _, k := range keys {
		out = append(out, M(k, B("int")))
	}
	out = append(out, Ar(0, B("int")), Ar(3, B("bool")), St())
	// []byte in every position (the generators special-case it)
	bs := Sl(B("uint8"))
	out = append(out, Sl(bs), Ar(2, bs), M(B("string"), bs), St(bs, B("int")), P(bs), Sl(c.NU8), St(Sl(c.NU8)), P(St(bs)), Sl(St(bs)))
	return out
}

// Shapes returns the deterministic list of type shapes up to the given depth (1 or 2) and,
// beyond, nrand random shapes of depth 3..4.
func (c *Catalogue) Shapes(r *hx.Rand, depth int, nrand int) []*Type {
	l0 := c.Leaves()
	out := append([]*Type{}, l0...)
	l1 := c.Over(l0, r)
	out = append(out, l1...)
	if depth >= 2 {
		out = append(out, c.Over(l1, r)...)
	}
	for i := 0; i < nrand; i++ {
		out = append(out, c.Random(r, 3+r.Intn(2)))
	}
	return Dedup(out)
}

func (c *Catalogue) Random(r *hx.Rand, depth int) *Type {
	if depth <= 0 || r.Intn(6) == 0 {
		return hx.Pick(r, c.Leaves())
	}
	switch r.Intn(7) {
	case 0:
		return P(c.Random(r, depth-1))
	case 1:
		return Sl(c.Random(r, depth-1))
	case 2:
		return Ar(r.Intn(3), c.Random(r, depth-1))
	case 3:
		return M(hx.Pick(r, c.KeyLeaves()), c.Random(r, depth-1))
	case 4:
		n := r.Intn(4)
		ts := make([]*Type, n)
		priv := make([]bool, n)
		for i := range ts {
			ts[i] = c.Random(r, depth-1)
			priv[i] = r.Intn(4) == 0
		}
		return StP(priv, ts...)
	case 5:
		return Sl(B("uint8"))
	default:
		return hx.Pick(r, c.Leaves())
	}
}

func Dedup(ts []*Type) []*Type {
	seen := map[string]bool{}
	var out []*Type
	for _, t := range ts {
		k := t.Go(0)
		if !seen[k] {
			seen[k] = true
			out = append(out, t)
		}
	}
	return out
}

// DeclSource returns the source of the declarations of package `pkg` (0 main, 1, 2 ext).
func DeclSource(decls map[int]*Type, pkg int) string {
	var ids []int
	for id, d := range decls {
		if d.Ext == pkg {
			ids = append(ids, id)
		}
	}
	sort.Ints(ids)
	var b strings.Builder
	for _, id := range ids {
		d := decls[id]
		fmt.Fprintf(&b, "type %s %s\n\n%s", d.Name, d.Elem.goDecl(pkg), d.Methods)
	}
	return b.String()
}

// goDecl prints an underlying type on several lines (gofmt-like for structs so that goderive's
// FieldStrings, which assumes one field per line, is not what a test trips over).
func (t *Type) goDecl(from int) string {
	if t.K != KStruct || len(t.Fields) == 0 {
		return t.Go(from)
	}
	var b strings.Builder
	b.WriteString("struct {\n")
	for _, f := range t.Fields {
		b.WriteString("\t" + f.Name + " " + f.T.Go(from) + "\n")
	}
	b.WriteString("}")
	return b.String()
}
