package ga

// extra_r5C02.go — additions of hardening round 5 for C02 (derived Equal); nothing in the other files
// of this package is changed.
//
//  1. Declarations the plain grammar cannot write: struct fields that are EMBEDDED (the field is
//     named after its type, its fields are promoted into the outer struct and may be HIDDEN by a
//     shallower field of the same name) and struct fields with a TAG.  For the model a struct is a
//     list of (exported?, type): neither the name of a field nor its tag nor the way it is reached
//     takes part in the value, so the Coq side sees ordinary structs.  An embedded field is a Field
//     with an empty Name (`Emb`); tags are kept in a side table by declaration id and field index
//     (`SetTagsR5`) and printed by DeclFilesR5, which overrides the declaration files of a scratch
//     package through Pkg.Extra.
//  2. EmbeddedShapesR5, TagShapesR5: the type shapes with such declarations.
//  3. NamedIfaceMethodShapesR5: named types whose Equal method takes a NAMED interface (local,
//     empty, imported) that the type implements — plugin/equal hands such a method the other VALUE,
//     ids 100..199 of Go/Methods.v — or a NON-EMPTY interface literal / an alias of one — the method
//     is handed the other value's ADDRESS, ids 200..299; or a named interface that only *T implements
//     (pointer receivers): the address as well.
//  4. MutationGroupsR5: for a type, groups (origin, every single-leaf and single-nil-ness mutation
//     of the origin), for a rich origin (every pointer set, every container populated) and for the
//     zero value: the quantifier of C02 verbatim, where the catalogue's pools only reach the
//     mutations of the first field of a nested struct.

import (
	"fmt"
	"sort"
	"strings"
	"sync"
)

// ---------- declarations with embedded fields and tags ----------

// Emb: an embedded field of type t (t: a named type or a pointer to one).  The field has no name of
// its own in the source; unexported when the type's name is.
func Emb(t *Type) Field {
	n := t
	if n.K == KPtr {
		n = n.Elem
	}
	c := n.Name[0]
	return Field{Name: "", Priv: !(c >= 'A' && c <= 'Z'), T: t}
}

// Fld: a field with a name of the caller's choice (exportedness follows the name).
func Fld(name string, t *Type) Field {
	c := name[0]
	return Field{Name: name, Priv: !(c >= 'A' && c <= 'Z'), T: t}
}

// StF: struct with the given fields.
func StF(fs ...Field) *Type { return &Type{K: KStruct, Fields: fs} }

var (
	r5Mu   sync.RWMutex
	r5Tags = map[int]map[int]string{}
)

// SetTagsR5 records the tags (Go source of the literal, quotes included) of fields of the named
// struct with this declaration id.
func SetTagsR5(id int, tags map[int]string) {
	r5Mu.Lock()
	r5Tags[id] = tags
	r5Mu.Unlock()
}

func tagR5(id, field int) string {
	r5Mu.RLock()
	defer r5Mu.RUnlock()
	return r5Tags[id][field]
}

func declR5(d *Type, pkg int) string {
	if d.Elem.K != KStruct || len(d.Elem.Fields) == 0 {
		return d.Elem.Go(pkg)
	}
	var b strings.Builder
	b.WriteString("struct {\n")
	for i, f := range d.Elem.Fields {
		b.WriteString("\t")
		if f.Name != "" {
			b.WriteString(f.Name + " ")
		}
		b.WriteString(f.T.Go(pkg))
		if tag := tagR5(d.ID, i); tag != "" {
			b.WriteString(" " + tag)
		}
		b.WriteString("\n")
	}
	b.WriteString("}")
	return b.String()
}

// DeclFilesR5 returns the declaration files (decls.go of package main and ext.go of the imported
// packages) for ALL named types that occur in types, tags included; handed to a scratch package as
// Pkg.Extra they replace the files Pkg.Write would print.  The files may declare more than one batch
// of the types uses (unused declarations are legal).
func DeclFilesR5(types []*Type) map[string]string {
	decls := map[int]*Type{}
	for _, t := range types {
		t.Decls(decls)
	}
	files := map[string]string{}
	for pkg := 0; pkg <= 2; pkg++ {
		var ids []int
		for id, d := range decls {
			if d.Ext == pkg {
				ids = append(ids, id)
			}
		}
		if len(ids) == 0 && pkg != 0 {
			continue
		}
		sort.Ints(ids)
		var body strings.Builder
		for _, id := range ids {
			d := decls[id]
			fmt.Fprintf(&body, "type %s %s\n\n%s", d.Name, declR5(d, pkg), d.Methods)
		}
		src := body.String()
		var imp strings.Builder
		if pkg == 0 {
			// the alias is followed by a dot only where a declaration or a method mentions the package
			var lines []string
			for _, e := range []int{1, 2} {
				if strings.Contains(src, extAlias[e]+".") {
					lines = append(lines, fmt.Sprintf("\t%s %q\n", extAlias[e], ExtPaths[e]))
				}
			}
			if len(lines) > 0 {
				imp.WriteString("import (\n" + strings.Join(lines, "") + ")\n\n")
			}
			files["decls.go"] = "package main\n\n" + imp.String() + src
		} else {
			files[strings.TrimPrefix(ExtPaths[pkg], "p/")+"/ext.go"] = "package ext\n\n" + src
		}
	}
	return files
}

// around: a component type as top-level type, behind a pointer, as slice element and map value, and
// as value and pointer field of a named holder struct (id hid; holders have ids from 400, outside the
// method classes 100..399 of Go/Methods.v).
func around(hid int, t *Type) []*Type {
	h := Named(hid, "H"+t.Name, 0, St(B("string"), t, P(t)))
	return []*Type{t, P(t), Sl(t), M(B("string"), t), h}
}

// EmbeddedShapesR5: structs with embedded fields (ids 70..85).  The second list holds the types in
// which a name occurs twice at the same depth or is hidden by a field of another type — a generator
// that wrote a promoted selector there would not produce a wrong answer but code that does not
// compile (a direct finding that says less than a failing pair of values), so they get a package of
// their own.
// The shapes that mention an imported type are a list of their own as well: the more packages, the less a
// generator that emits something the compiler refuses for ONE shape hides its wrong answers on the others.
func (c *Catalogue) EmbeddedShapesR5() (shapes, imported, ambiguous []*Type) {
	i, s := B("int"), B("string")
	base := Named(70, "Base", 0, StF(Fld("ID", i), Fld("Name", s)))
	// the classic: Derived.ID hides Base.ID
	derived := Named(71, "Derived", 0, StF(Emb(base), Fld("ID", i)))
	// two levels, through an unexported embedded type: Doc.Version hides Doc.Meta.audit.Version
	audit := Named(72, "audit", 0, StF(Fld("Version", i), Fld("by", s)))
	meta := Named(73, "Meta", 0, StF(Emb(audit), Fld("Title", s)))
	doc := Named(74, "Doc", 0, StF(Emb(meta), Fld("Version", i)))
	// not ==-comparable, the hidden field is neither the first of the embedded struct nor behind the first field
	mid := Named(75, "Mid", 0, StF(Fld("Tags", Sl(s)), Emb(base), Fld("Name", s)))
	// the hiding field has another type than the hidden one
	midx := Named(85, "MidX", 0, StF(Emb(base), Fld("Name", Sl(B("uint8")))))
	// embedded by pointer (nil-ness of the embedded pointer, promoted fields behind it)
	pder := Named(76, "PDerived", 0, StF(Emb(P(base)), Fld("ID", i)))
	// an embedded imported struct whose F0 is hidden
	xder := Named(77, "XDerived", 0, StF(Emb(c.E3), Fld("F0", s)))
	// the same name at the same depth twice: neither is promoted (a selector would be ambiguous)
	other := Named(78, "Other", 0, StF(Fld("ID", i), Fld("Flag", B("bool"))))
	amb := Named(79, "Amb", 0, StF(Emb(base), Emb(other)))
	// the same embedded type at two depths: Sib.Base hides Sib.Derived.Base, Sib.ID is ambiguous
	sib := Named(80, "Sib", 0, StF(Emb(derived), Emb(base)))
	// embedded types that are not structs, next to an unexported field
	embn := Named(81, "EmbN", 0, StF(Emb(c.NInt), Emb(c.NSl), Fld("n", i)))
	// no clash at all: every promoted name is visible
	plain := Named(82, "Plain", 0, StF(Emb(base), Fld("Extra", s)))
	// an embedded type with its own Equal method whose first field is hidden: the method answers at the
	// embedded component, the outer F0 is compared next to it
	var out []*Type
	cores := []*Type{derived, doc, mid, pder, embn, plain}
	if c.WithMethods {
		cores = append(cores, Named(83, "EmbM", 0, StF(Emb(c.ME), Fld("F0", i))), Named(84, "EmbP", 0, StF(Fld("F0", s), Emb(P(c.MP)))))
	}
	for k, t := range cores {
		out = append(out, around(400+k, t)...)
	}
	out = append(out, Ar(2, derived), M(i, P(doc)), Sl(P(derived)))
	imported = around(414, xder)
	for k, t := range []*Type{amb, sib, midx} {
		ambiguous = append(ambiguous, around(415+k, t)...)
	}
	return out, imported, ambiguous
}

// TagShapesR5: named structs whose fields carry tags of the usual kinds (a key with the value "-",
// options, several keys, raw and interpreted literals).  Ids 47..59.
func (c *Catalogue) TagShapesR5() (shapes, imported []*Type) {
	i, s := B("int"), B("string")
	tagged := func(id int, name string, ext int, u *Type, tags map[int]string) *Type {
		SetTagsR5(id, tags)
		return Named(id, name, ext, u)
	}
	acct := tagged(47, "Acct", 0, StF(Fld("Login", s), Fld("Password", P(s)), Fld("Roles", Sl(s)), Fld("Quota", i), Fld("secret", i)),
		map[int]string{0: "`json:\"login\"`", 1: "`json:\"-\"`", 2: "`yaml:\"-\" json:\"roles,omitempty\"`", 4: "`db:\"-\"`"})
	// ==-comparable, the first field is the one kept out of documents
	tc := tagged(48, "TagC", 0, St(i, s), map[int]string{0: "`json:\"-\"`", 1: "`json:\"name,omitempty\"`"})
	// every field tagged away
	tall := tagged(49, "TagAll", 0, St(s, Sl(i)), map[int]string{0: "`xml:\"-\"`", 1: "`bson:\"-\"`"})
	// tags that name the generator, interpreted string literals, options after the dash, a tag that is no key:"value" list
	tg := tagged(50, "TagG", 0, St(M(s, i), i, s, B("bool")),
		map[int]string{0: "`goderive:\"-\"`", 1: "\"json:\\\"-\\\"\"", 2: "`json:\"-,\"`", 3: "`-`"})
	// a tagged embedded field, a tagged field of an imported type, an imported struct with tags
	base := Named(70, "Base", 0, StF(Fld("ID", i), Fld("Name", s)))
	te := tagged(51, "TagE", 0, StF(Emb(base), Fld("When", c.E2), Fld("N", i)), map[int]string{0: "`json:\"-\"`", 1: "`gorm:\"-\"`"})
	xt := tagged(52, "XT", 1, StP([]bool{false, true}, i, Sl(s)), map[int]string{0: "`json:\"-\"`", 1: "`json:\"-\"`"})
	var out []*Type
	for k, t := range []*Type{acct, tc, tall, tg} {
		out = append(out, around(420+k, t)...)
	}
	for k, t := range []*Type{te, xt} {
		imported = append(imported, around(424+k, t)...)
	}
	return append(out, Ar(2, tc), Sl(P(acct))), imported
}

// NamedIfaceMethodTypesR5: see the head of the file.
func (c *Catalogue) NamedIfaceMethodTypesR5() []*Type {
	i, s := B("int"), B("string")
	// the method is handed the other value: it understands a value of its own type and nothing else
	valEqual := func(name, param, pre string) string {
		return pre + "func (a " + name + ") Tag() int { return 0 }\n\n" +
			"func (a " + name + ") Equal(that " + param + ") bool {\n\tb, ok := that.(" + name + ")\n\treturn ok && a.F0 == b.F0\n}\n\n"
	}
	self := func(iface string) string {
		return "type " + iface + " interface {\n\tTag() int\n\tEqual(" + iface + ") bool\n}\n\n"
	}
	mn := Named(110, "MN", 0, St(i, s)) // ==-comparable, the interface mentions itself (Shape.Equal(Shape))
	mn.Methods = valEqual("MN", "IMN", self("IMN"))
	mns := Named(111, "MNs", 0, St(s, Sl(i))) // not ==-comparable
	mns.Methods = valEqual("MNs", "IMNs", self("IMNs"))
	mne := Named(112, "MNe", 0, St(i, Sl(s))) // a named EMPTY interface
	mne.Methods = valEqual("MNe", "Anything", "type Anything interface{}\n\n")
	xn := Named(113, "XN", 1, St(s, i)) // imported, with the interface of its package
	xn.Methods = valEqual("XN", "IXN", self("IXN"))
	mnx := Named(114, "MNx", 0, St(i, P(i))) // a local type, the interface is imported
	mnx.Methods = valEqual("MNx", "ext.IXN", "")
	// the method is handed the other value's address (an interface literal, however many methods it lists)
	ptrEqual := func(name, param, pre string) string {
		return pre + "func (a *" + name + ") Tag() int { return 0 }\n\nfunc (a *" + name + ") Label() string { return \"\" }\n\n" + ifaceEqual(name, param)
	}
	ml := Named(220, "ML", 0, St(s, Sl(i)))
	ml.Methods = ptrEqual("ML", "interface{ Tag() int }", "")
	mlc := Named(221, "MLc", 0, St(i, s)) // ==-comparable
	mlc.Methods = ptrEqual("MLc", "interface {\n\tTag() int\n\tLabel() string\n}", "")
	mla := Named(222, "MLa", 0, St(s, i)) // an alias of an interface literal
	mla.Methods = ptrEqual("MLa", "MLaArg", "type MLaArg = interface{ Tag() int }\n\n")
	// third convention (goderive fix 3c717aa): a NAMED interface that only the POINTER type implements
	// (pointer receivers) — the value is not assignable to the parameter, so the method is handed the
	// other value's address like a *T parameter: ids 223..225
	mq := Named(223, "MQ", 0, St(s, Sl(i))) // the interface mentions itself, as Shape.Equal(Shape)
	mq.Methods = ptrEqual("MQ", "IMQ", self("IMQ"))
	mqc := Named(224, "MQc", 0, St(i, s)) // ==-comparable
	mqc.Methods = ptrEqual("MQc", "IMQc", "type IMQc interface {\n\tTag() int\n\tLabel() string\n}\n\n")
	xq := Named(225, "XQ", 1, St(i, Sl(s))) // imported, with the interface of its package
	xq.Methods = ptrEqual("XQ", "IXQ", self("IXQ"))
	// ... and a Compare method of the same shape (goderive fix 9bb0687), -1/0/+1 by the first field, nil first
	for _, t := range []*Type{mq, mqc, xq} {
		t.Methods += "func (a *" + t.Name + ") Compare(that I" + t.Name + ") int {\n\tb, ok := that.(*" + t.Name + ")\n\tif !ok {\n\t\treturn -2\n\t}\n" +
			"\tif a == nil {\n\t\tif b == nil {\n\t\t\treturn 0\n\t\t}\n\t\treturn -1\n\t}\n\tif b == nil {\n\t\treturn 1\n\t}\n" +
			"\tif a.F0 < b.F0 {\n\t\treturn -1\n\t}\n\tif a.F0 > b.F0 {\n\t\treturn 1\n\t}\n\treturn 0\n}\n\n"
	}
	return []*Type{mn, mns, mne, xn, mnx, ml, mlc, mla, mq, mqc, xq}
}

// NamedIfacePtrCompareShapesR5 (C03): the types whose Equal and Compare methods have a pointer receiver and
// a named interface parameter that only the pointer type implements, as VALUE components (slice and array
// element, map value, field of a named struct, of an unnamed struct in a slice).  Not as top-level type or
// behind a pointer: there plugin/compare generates the field-wise function of the pointer type for every
// method whose parameter is neither a pointer nor an interface literal (the open finding
// C03-compare-ignores-value-method describes it for value parameters; Go/Methods.v's [vm_exposed] knows
// that class by the ids 100..199 only).
func (c *Catalogue) NamedIfacePtrCompareShapesR5() []*Type {
	var out []*Type
	for _, t := range c.NamedIfaceMethodTypesR5() {
		if t.ID < 223 || t.ID > 225 {
			continue
		}
		h := Named(460+t.ID-223, "W"+t.Name, 0, St(B("string"), t, B("int")))
		out = append(out, Sl(t), Ar(2, t), M(B("string"), t), h, Sl(h), Sl(Ar(2, t)))
	}
	return out
}

// NamedIfaceMethodShapesR5: each of those types as top-level type and as component held by value and
// by pointer in every kind of container, directly and inside a named struct.
func (c *Catalogue) NamedIfaceMethodShapesR5() []*Type {
	var out []*Type
	for k, t := range c.NamedIfaceMethodTypesR5() {
		h := Named(440+k, "H"+t.Name, 0, St(B("string"), t, P(t)))
		out = append(out, t, P(t), Sl(t), Ar(2, t), M(B("string"), t), St(P(t), B("int")), M(B("int"), P(t)), h, Sl(h))
	}
	return out
}

// ---------- single mutations ----------

func envWith(env map[int]*Type, t *Type) map[int]*Type {
	env2 := map[int]*Type{}
	for k, v := range env {
		env2[k] = v
	}
	env2[t.ID] = t
	return env2
}

// distinctBasic: values of the basic type that differ from v under ==.
func (g *Gen) distinctBasic(b string, v *Val, n int) []*Val {
	var out []*Val
	seen := map[string]bool{}
	if v != nil {
		seen[v.canon()] = true
	}
	for _, x := range g.basicPool(b) {
		if c := x.canon(); !seen[c] {
			seen[c] = true
			out = append(out, x)
			if len(out) == n {
				break
			}
		}
	}
	return out
}

// RichR5: a value of t in which every pointer is set and every slice and map is populated (down to
// depth levels of a recursive declaration), with leaves that are not the zero value.
func (g *Gen) RichR5(t *Type, env map[int]*Type, depth int) *Val {
	switch t.K {
	case KBasic:
		d := g.distinctBasic(t.Basic, g.basicPool(t.Basic)[0], 2)
		return d[len(d)-1]
	case KNamed:
		return g.RichR5(t.Elem, envWith(env, t), depth)
	case KRef:
		if depth <= 0 {
			return g.pool(t, env, 0)[0]
		}
		return g.RichR5(env[t.ID].Elem, env, depth-1)
	case KPtr:
		return &Val{K: "p", Loc: g.Fresh(), Elems: []*Val{g.RichR5(t.Elem, env, depth)}}
	case KSlice:
		return &Val{K: "sl", Loc: g.Fresh(), Elems: []*Val{g.RichR5(t.Elem, env, depth), g.cl(g.pool(t.Elem, env, 1)[0])}}
	case KArray:
		a := &Val{K: "a"}
		for i := 0; i < t.N; i++ {
			a.Elems = append(a.Elems, g.RichR5(t.Elem, env, depth))
		}
		return a
	case KMap:
		m := &Val{K: "m", Loc: g.Fresh()}
		kp := g.pool(t.Key, env, 1)
		m.KVs = append(m.KVs, [2]*Val{g.cl(kp[0]), g.RichR5(t.Elem, env, depth)})
		for _, k := range kp[1:] {
			if k.canon() != kp[0].canon() {
				m.KVs = append(m.KVs, [2]*Val{g.cl(k), g.cl(g.pool(t.Elem, env, 1)[0])})
				break
			}
		}
		return m
	case KStruct:
		st := &Val{K: "st"}
		for _, f := range t.Fields {
			st.Elems = append(st.Elems, g.RichR5(f.T, env, depth))
		}
		return st
	}
	panic("RichR5")
}

// mutationsR5: every value that differs from v (of type t) in a single leaf, in the nil-ness of a
// single pointer, slice or map, or in a single length / key set.  Parts that are not touched are
// shared with v (the callers clone).
func (g *Gen) mutationsR5(t *Type, env map[int]*Type, v *Val) []*Val {
	with := func(i int, alts []*Val) []*Val { // v with component i replaced
		var out []*Val
		for _, a := range alts {
			c := *v
			c.Elems = append([]*Val{}, v.Elems...)
			c.Elems[i] = a
			out = append(out, &c)
		}
		return out
	}
	switch t.K {
	case KBasic:
		return g.distinctBasic(t.Basic, v, 2)
	case KNamed:
		return g.mutationsR5(t.Elem, envWith(env, t), v)
	case KRef:
		return g.mutationsR5(env[t.ID].Elem, env, v)
	case KPtr:
		if v.K == "nilp" {
			return []*Val{{K: "p", Loc: g.Fresh(), Elems: []*Val{g.pool(t.Elem, env, 0)[0]}}}
		}
		return append([]*Val{{K: "nilp"}}, with(0, g.mutationsR5(t.Elem, env, v.Elems[0]))...)
	case KSlice:
		zero := g.pool(t.Elem, env, 0)[0]
		switch {
		case v.K == "nils":
			return []*Val{{K: "sl", Loc: g.Fresh()}}
		case len(v.Elems) == 0:
			return []*Val{{K: "nils"}, {K: "sl", Loc: g.Fresh(), Elems: []*Val{zero}}}
		}
		out := []*Val{{K: "nils"}, {K: "sl", Loc: g.Fresh()},
			{K: "sl", Loc: g.Fresh(), Elems: v.Elems[:len(v.Elems)-1]},
			{K: "sl", Loc: g.Fresh(), Elems: append(append([]*Val{}, v.Elems...), v.Elems[0])}}
		for i := 0; i < len(v.Elems) && i < 3; i++ {
			out = append(out, with(i, g.mutationsR5(t.Elem, env, v.Elems[i]))...)
		}
		return out
	case KArray:
		var out []*Val
		for i := range v.Elems {
			out = append(out, with(i, g.mutationsR5(t.Elem, env, v.Elems[i]))...)
		}
		return out
	case KMap:
		if v.K == "nilm" {
			return []*Val{{K: "m", Loc: g.Fresh()}}
		}
		out := []*Val{{K: "nilm"}}
		if len(v.KVs) > 0 {
			out = append(out, &Val{K: "m", Loc: g.Fresh(), KVs: v.KVs[1:]})
		}
		// another key for the first entry (same length, different key set), one entry more
		have := map[string]bool{}
		for _, kv := range v.KVs {
			have[kv[0].canon()] = true
		}
		for _, k := range g.pool(t.Key, env, 1) {
			if !have[k.canon()] {
				zero := g.pool(t.Elem, env, 0)[0]
				out = append(out, &Val{K: "m", Loc: g.Fresh(), KVs: append(append([][2]*Val{}, v.KVs...), [2]*Val{k, zero})})
				if len(v.KVs) > 0 {
					out = append(out, &Val{K: "m", Loc: g.Fresh(), KVs: append([][2]*Val{{k, v.KVs[0][1]}}, v.KVs[1:]...)})
				}
				break
			}
		}
		for i := 0; i < len(v.KVs) && i < 2; i++ {
			for _, a := range g.mutationsR5(t.Elem, env, v.KVs[i][1]) {
				c := *v
				c.KVs = append([][2]*Val{}, v.KVs...)
				c.KVs[i] = [2]*Val{v.KVs[i][0], a}
				out = append(out, &c)
			}
		}
		return out
	case KStruct:
		var out []*Val
		for i, f := range t.Fields {
			out = append(out, with(i, g.mutationsR5(f.T, env, v.Elems[i]))...)
		}
		return out
	}
	panic("mutationsR5")
}

// MutationGroupsR5 returns groups [origin, mutation, mutation, ...]: the single mutations of a rich
// value and of the zero value of t, at most max per origin (evenly spread over the components when
// there are more; every value with labels of its own).
func (g *Gen) MutationGroupsR5(t *Type, max int) [][]*Val {
	env := map[int]*Type{}
	var groups [][]*Val
	for _, o := range []*Val{g.RichR5(t, env, 2), g.pool(t, env, 3)[0]} {
		muts := g.mutationsR5(t, env, o)
		if len(muts) > max {
			var sel []*Val
			for k := 0; k < max; k++ {
				sel = append(sel, muts[k*len(muts)/max])
			}
			muts = sel
		}
		grp := []*Val{g.cl(o)}
		for _, m := range muts {
			grp = append(grp, g.cl(m))
		}
		groups = append(groups, grp)
	}
	return groups
}
