package ga

import (
	_ "embed"
	"fmt"
	"os"
	"path/filepath"
	"sort"
	"strings"

	"verifharness/internal/hx"
)

//go:embed rt_driver.go.txt
var RTSource string

// Call describes one derive call the scratch package makes for a type.
type Call struct {
	Op     string                           // registry key used in cases ("eq", "eqc", "cmp", "hash", ...)
	Wrap   func(idx int, tgo string) string // source of the wrapper function(s) in calls.go (no imports)
	WrapFn func(idx int) string             // name of the wrapper to register
}

// Simple makes a Call whose wrapper is `func <op>_<idx>(<params>) <res> { return <prefix>_<idx>(<args>) }`.
// params/res/args may use %T for the Go spelling of the type.
func Simple(op, prefix, params, res, args string) Call {
	return Call{
		Op: op,
		Wrap: func(idx int, tgo string) string {
			r := strings.NewReplacer("%T", tgo)
			return fmt.Sprintf("func %s_%d(%s) %s { return %s_%d(%s) }\n", op, idx, r.Replace(params), r.Replace(res), prefix, idx, r.Replace(args))
		},
		WrapFn: func(idx int) string { return fmt.Sprintf("%s_%d", op, idx) },
	}
}

var (
	CallEq  = Simple("eq", "deriveEqual", "a, b %T", "bool", "a, b")
	CallEqC = Call{Op: "eqc", Wrap: func(idx int, tgo string) string {
		return fmt.Sprintf("func eqc_%d(a, b %s) bool { return deriveEqualC_%d(a)(b) }\n", idx, tgo, idx)
	}, WrapFn: func(idx int) string { return fmt.Sprintf("eqc_%d", idx) }}
	CallCmp  = Simple("cmp", "deriveCompare", "a, b %T", "int", "a, b")
	CallCmpC = Call{Op: "cmpc", Wrap: func(idx int, tgo string) string {
		return fmt.Sprintf("func cmpc_%d(a, b %s) int { return deriveCompareC_%d(a)(b) }\n", idx, tgo, idx)
	}, WrapFn: func(idx int) string { return fmt.Sprintf("cmpc_%d", idx) }}
	CallHash = Simple("hash", "deriveHash", "a %T", "uint64", "a")
)

// Pkg is a scratch package: declarations + wrappers around derive calls for a list of types.
type Pkg struct {
	Dir   string
	Types []*Type
	Idx   []int // global index of each type (used in function names and types.txt)
	Calls []Call
	Extra map[string]string // additional files
}

// Write creates the module: go.mod, decls.go, calls.go, external packages, types.txt; the
// driver (rt.go, reg.go with the drv tag) is added by AddDriver after goderive ran.
func (p *Pkg) Write() error {
	if err := hx.Module(p.Dir); err != nil {
		return err
	}
	decls := map[int]*Type{}
	ext := map[int]bool{}
	for _, t := range p.Types {
		t.Decls(decls)
		t.UsesExt(ext)
	}
	for _, d := range decls {
		if d.Ext == 0 {
			d.Elem.UsesExt(ext)
		}
	}
	files := map[string]string{}
	var imp strings.Builder
	var exts []int
	for e := range ext {
		exts = append(exts, e)
	}
	sort.Ints(exts)
	if len(exts) > 0 {
		imp.WriteString("import (\n")
		for _, e := range exts {
			fmt.Fprintf(&imp, "\t%s %q\n", extAlias[e], ExtPaths[e])
		}
		imp.WriteString(")\n\n")
	}
	// decls.go holds every local declaration; its imports are only those the declarations need
	declExt := map[int]bool{}
	for _, d := range decls {
		if d.Ext == 0 {
			d.Elem.UsesExt(declExt)
		}
	}
	var dimp strings.Builder
	var dexts []int
	for e := range declExt {
		dexts = append(dexts, e)
	}
	sort.Ints(dexts)
	if len(dexts) > 0 {
		dimp.WriteString("import (\n")
		for _, e := range dexts {
			fmt.Fprintf(&dimp, "\t%s %q\n", extAlias[e], ExtPaths[e])
		}
		dimp.WriteString(")\n\n")
	}
	files["decls.go"] = "package main\n\n" + dimp.String() + DeclSource(decls, 0)
	callExt := map[int]bool{}
	for _, t := range p.Types {
		if len(p.Calls) > 0 {
			t.UsesExt(callExt)
		}
	}
	var cimp strings.Builder
	var cexts []int
	for e := range callExt {
		cexts = append(cexts, e)
	}
	sort.Ints(cexts)
	if len(cexts) > 0 {
		cimp.WriteString("import (\n")
		for _, e := range cexts {
			fmt.Fprintf(&cimp, "\t%s %q\n", extAlias[e], ExtPaths[e])
		}
		cimp.WriteString(")\n\n")
	}
	var calls, regs, tys strings.Builder
	calls.WriteString("package main\n\n" + cimp.String())
	regs.WriteString("//go:build drv\n\npackage main\n\nfunc init() {\n")
	for i, t := range p.Types {
		idx := p.Idx[i]
		tgo := t.Go(0)
		for _, c := range p.Calls {
			calls.WriteString(c.Wrap(idx, tgo))
			fmt.Fprintf(&regs, "\treg(%q, %d, %s)\n", c.Op, idx, c.WrapFn(idx))
		}
		fmt.Fprintf(&tys, "%d %s\n", idx, t.Sexp())
	}
	regs.WriteString("}\n")
	files["calls.go"] = calls.String()
	files["reg.go"] = regs.String()
	files["types.txt"] = tys.String()
	files["rt.go"] = RTSource
	for e := range ext {
		files[strings.TrimPrefix(ExtPaths[e], "p/")+"/ext.go"] = "package ext\n\n" + DeclSource(declsOfExt(decls, e), e)
	}
	// external packages are needed even when only their types' declarations are referenced
	for _, d := range decls {
		if d.Ext != 0 {
			files[strings.TrimPrefix(ExtPaths[d.Ext], "p/")+"/ext.go"] = "package ext\n\n" + DeclSource(declsOfExt(decls, d.Ext), d.Ext)
		}
	}
	for k, v := range p.Extra {
		files[k] = v
	}
	_ = imp
	return hx.WriteFiles(p.Dir, files)
}

func declsOfExt(decls map[int]*Type, e int) map[int]*Type {
	out := map[int]*Type{}
	for id, d := range decls {
		if d.Ext == e {
			out[id] = d
		}
	}
	return out
}

// Generate runs goderive on the package (root package only).
func (p *Pkg) Generate(goderive string, flags ...string) hx.RunResult {
	args := append(append([]string{}, flags...), ".")
	return hx.Goderive(goderive, p.Dir, args...)
}

// BuildDriver compiles the package with the drv tag into <dir>/drv.
func (p *Pkg) BuildDriver() hx.RunResult {
	return hx.GoBuild(p.Dir, filepath.Join(p.Dir, "drv"), "drv")
}

// RunDriver feeds the cases (one per line) to the driver and returns its stdout.
func (p *Pkg) RunDriver(cases string) hx.RunResult {
	cf := filepath.Join(p.Dir, "cases.txt")
	if err := os.WriteFile(cf, []byte(cases), 0o644); err != nil {
		return hx.RunResult{Exit: -2, Out: err.Error()}
	}
	return hx.Run(p.Dir, 600e9, 8000000, nil, filepath.Join(p.Dir, "drv"), cf)
}

func (p *Pkg) Derived() string {
	b, _ := os.ReadFile(filepath.Join(p.Dir, "derived.gen.go"))
	return string(b)
}

// Batches groups types into packages of at most size types such that no two top-level types of
// one package are mutually assignable (a named type and its unnamed underlying type count as a
// duplicate registration for goderive, which is C11's subject, not a defect).
func Batches(types []*Type, idx []int, size int) (bt [][]*Type, bi [][]int) {
	var keys []map[string]bool
	for i, t := range types {
		k := t.Go(0)
		if t.K == KNamed {
			k = t.Elem.Go(t.Ext)
		}
		placed := false
		for b := range bt {
			if len(bt[b]) < size && !keys[b][k] {
				bt[b] = append(bt[b], t)
				bi[b] = append(bi[b], idx[i])
				keys[b][k] = true
				placed = true
				break
			}
		}
		if !placed {
			bt = append(bt, []*Type{t})
			bi = append(bi, []int{idx[i]})
			keys = append(keys, map[string]bool{k: true})
		}
	}
	return
}

var (
	CallDC = Call{Op: "dc", Wrap: func(idx int, tgo string) string {
		return fmt.Sprintf("func dc_%d(dst, src %s) { deriveDeepCopy_%d(dst, src) }\n", idx, tgo, idx)
	}, WrapFn: func(idx int) string { return fmt.Sprintf("dc_%d", idx) }}
	CallClone = Simple("clone", "deriveClone", "a %T", "%T", "a")
	CallGS    = Simple("gs", "deriveGoString", "a %T", "string", "a")
)
