package ga

import (
	"fmt"
	"os"
	"path/filepath"
	"strings"

	"verifharness/internal/hx"
)

// ValueRun is the common flow of the value-level properties: enumerate type shapes, probe each
// with goderive (+ go vet), batch the accepted ones into packages, build the driver, run the
// cases produced for each type's value pool, collect observation files.
type ValueRun struct {
	Prop   string
	Calls  []Call
	SupObs string // kind of the per-type support observation, e.g. "sup-eq"
	// Cases writes the case lines ("op idx args...") for one type and its value pool.
	Cases func(idx int, t *Type, vals []*Val, r *hx.Rand, out *strings.Builder)
	// Filter restricts the type shapes (nil = all).
	Filter                  func(t *Type) bool
	PoolQuick, PoolThorough int
	Extra                   map[string]string // extra files for every package (driver additions)
	// TwoProcess runs the driver a second time on the same cases and reports any difference
	// (repeatability across processes).
	TwoProcess bool
	// WithMethods adds named structs with user-declared Equal/Compare methods to the leaves.
	WithMethods bool
}

func (vr *ValueRun) Run(cfg hx.Config) (*hx.Meta, error) {
	meta := &hx.Meta{Property: vr.Prop, Seed: cfg.Seed, Tier: cfg.Tier}
	low := strings.ToLower(vr.Prop)
	r := hx.NewRand(cfg.Seed)
	cat := NewCatalogue()
	cat.WithMethods = vr.WithMethods
	var types []*Type
	pool := vr.PoolQuick
	if cfg.Tier == "thorough" {
		types = cat.Shapes(r, 2, 300)
		pool = vr.PoolThorough
	} else {
		// quick: all shapes of depth <= 1, 40 random deeper ones and a seeded slice of the depth-2 shapes
		types = cat.Shapes(r, 1, 40)
		d2 := cat.Shapes(r, 2, 0)
		hx.Shuffle(r, d2)
		types = Dedup(append(types, d2[:60]...))
	}
	types = Dedup(append(cat.Special(), types...))
	if vr.Filter != nil {
		var f []*Type
		for _, t := range types {
			if vr.Filter(t) {
				f = append(f, t)
			}
		}
		types = f
	}
	probes := Probe(cfg.Goderive, filepath.Join(cfg.Work, "probe"), types, vr.Calls, true)
	var ok []*Type
	var okIdx []int
	var sup strings.Builder
	for i, t := range types {
		pr := probes[i]
		meta.GoderiveRuns++
		meta.Count("gen/" + pr.GenClass)
		fmt.Fprintf(&sup, "(%s %s %s)\n", vr.SupObs, t.Sexp(), pr.GenClass)
		switch {
		case pr.GenClass == "ok" && pr.VetOK:
			ok = append(ok, t)
			okIdx = append(okIdx, i)
		case pr.GenClass == "ok" && !pr.VetOK:
			// "generated but does not type-check" is C01's subject; here the type is not usable
			meta.Count("gen/ok-but-does-not-typecheck")
			meta.Notes = append(meta.Notes, "generated code for "+t.Go(0)+" does not type-check (see C01): "+hx.Truncate(pr.VetOut, 200))
		case pr.GenClass == "panic" || pr.GenClass == "timeout":
			// a crash of the generator is C09's subject; here the type simply is not usable
			meta.Notes = append(meta.Notes, "goderive "+pr.GenClass+" for "+t.Go(0)+" (see C09)")
		}
	}
	supf := filepath.Join(cfg.Out, low+"-support.obs")
	if err := os.WriteFile(supf, []byte(sup.String()), 0o644); err != nil {
		return nil, err
	}
	meta.ObsFiles = append(meta.ObsFiles, supf)

	bts, bis := Batches(ok, okIdx, 60)
	nb := len(bts)
	obsFiles := make([]string, nb)
	errs := make([]error, nb)
	rs := make([]*hx.Rand, nb)
	for b := range rs {
		rs[b] = r.Fork(uint64(b))
	}
	hx.Parallel(nb, 8, func(b int) {
		p := &Pkg{Dir: filepath.Join(cfg.Work, fmt.Sprintf("batch%02d", b)), Types: bts[b], Idx: bis[b], Calls: vr.Calls, Extra: vr.Extra}
		if errs[b] = p.Write(); errs[b] != nil {
			return
		}
		g := p.Generate(cfg.Goderive)
		if g.Exit != 0 {
			meta.AddDirect(hx.Direct{Class: low + "-batch-generate-failed", What: "goderive fails on a batch of types that it accepts one by one", Cmd: "goderive .", Output: hx.Truncate(g.Out, 3000)})
			return
		}
		if bd := p.BuildDriver(); bd.Exit != 0 {
			meta.AddDirect(hx.Direct{Class: low + "-batch-build-failed", What: "batch of individually type-correct packages does not build", Cmd: "go build -tags drv", Output: hx.Truncate(bd.Out, 3000)})
			return
		}
		gen := NewGen(rs[b], pool)
		var cases strings.Builder
		for i, t := range p.Types {
			vals := gen.Pool(t, map[int]*Type{}, 3)
			vr.Cases(p.Idx[i], t, vals, rs[b], &cases)
			meta.CountSafe(fmt.Sprintf("pool-size/%02d", min(len(vals), 30)))
		}
		res := p.RunDriver(cases.String())
		if res.Exit != 0 {
			meta.AddDirect(hx.Direct{Class: low + "-driver-failed", What: "driver crashed", Cmd: "./drv cases.txt", Output: hx.Truncate(res.Out, 3000)})
			return
		}
		if vr.TwoProcess {
			res2 := p.RunDriver(cases.String())
			if res2.Stdout != res.Stdout {
				meta.AddDirect(hx.Direct{Class: low + "-not-repeatable", What: "two processes running the same calls print different results",
					Cmd: "./drv cases.txt (twice)", Output: firstDiff(res.Stdout, res2.Stdout)})
			}
			meta.CountSafe("two-process-comparisons")
			// a third process makes the same calls in the reverse order: what a call returns must not depend
			// on the calls made before it (scratch state kept between calls, capacities left over, ...)
			cl := strings.Split(strings.TrimRight(cases.String(), "\n"), "\n")
			rev := make([]string, len(cl))
			for i := range cl {
				rev[len(cl)-1-i] = cl[i]
			}
			res3 := p.RunDriver(strings.Join(rev, "\n") + "\n")
			o1 := strings.Split(strings.TrimRight(res.Stdout, "\n"), "\n")
			o3 := strings.Split(strings.TrimRight(res3.Stdout, "\n"), "\n")
			if res3.Exit == 0 && len(o1) == len(cl) && len(o3) == len(cl) {
				for i := range o1 {
					if o1[i] != o3[len(cl)-1-i] {
						meta.AddDirect(hx.Direct{Class: low + "-history-dependent", What: "the result of a call depends on the calls made before it in the same process",
							Cmd: "./drv cases.txt  vs  ./drv cases-reversed.txt", Output: hx.Truncate(o1[i], 1500) + "\n--- the same call after the calls that followed it ---\n" + hx.Truncate(o3[len(cl)-1-i], 1500)})
						break
					}
				}
				meta.CountSafe("reversed-order-comparisons")
			} else if res3.Exit != 0 {
				meta.AddDirect(hx.Direct{Class: low + "-driver-failed", What: "driver crashed on the reversed case list", Cmd: "./drv cases-reversed.txt", Output: hx.Truncate(res3.Out, 3000)})
			}
		}
		obsFiles[b] = filepath.Join(cfg.Out, fmt.Sprintf("%s-batch%02d.obs", low, b))
		errs[b] = os.WriteFile(obsFiles[b], []byte(res.Stdout), 0o644)
		for _, l := range strings.SplitN(res.Stdout, "\n", 50)[:3] {
			meta.Sample(hx.Truncate(l, 300))
		}
	})
	for b := range obsFiles {
		if errs[b] != nil {
			return nil, errs[b]
		}
		if obsFiles[b] != "" {
			meta.ObsFiles = append(meta.ObsFiles, obsFiles[b])
			meta.GoderiveRuns++
			meta.Packages++
		}
	}
	meta.Count(fmt.Sprintf("types=%d supported=%d", len(types), len(ok)))
	return meta, nil
}

func firstDiff(a, b string) string {
	la, lb := strings.Split(a, "\n"), strings.Split(b, "\n")
	for i := 0; i < len(la) && i < len(lb); i++ {
		if la[i] != lb[i] {
			return hx.Truncate(la[i], 1500) + "\n---\n" + hx.Truncate(lb[i], 1500)
		}
	}
	return "outputs differ in length"
}
