package ga

// extra_r5C18.go — additions of hardening round 5 for C18 (new functions only; nothing in the other
// files of this package is changed).
//
//   * InlineElemShapesR5C18: types in which a component that derived Equal compares with an INLINE
//     expression (`[]byte`: `(a == nil) == (b == nil) && bytes.Equal(a, b)`; a pointer to an unnamed
//     type: `(a == nil && b == nil) || (a != nil && b != nil && *a == *b)`) stands in ELEMENT position —
//     element of a slice, of an array, value of a map, referent of a pointer, field of an unnamed
//     struct — where the generator negates the expression (`if !(…) { return false }`) instead of
//     chaining it with `&&` as it does for struct fields.
//   * (*Gen).CollidingPairR5C18: for (almost) any type of the grammar, two values that are NOT Equal
//     and have the SAME derived Hash (h = 31*h + c everywhere: "Aa"/"BB", {1,0}/{0,31}, {0:31}/{1:0},
//     two adjacent integer fields (1,0)/(0,31)), built compositionally through slices, arrays, maps,
//     pointers, structs and named types.  Such a pair lands in one bucket of the EMITTED memo table.
//   * (*Gen).NonNilPoolR5C18: extra pool values of a type whose containers are all non-nil and hold
//     pairwise different, non-nil, non-empty elements (ga's pools put nil and empty first).

import "strconv"

// InlineElemShapesR5C18 returns the new parameter types (none of them ==-comparable).  IDs 50..52.
func InlineElemShapesR5C18(c *Catalogue) []*Type {
	by := Sl(B("uint8"))
	nb := Named(50, "NB", 0, Sl(B("byte")))
	bk := Named(51, "BK", 0, St(Sl(B("uint8")), B("string")))
	return []*Type{
		Sl(by), Sl(Sl(B("byte"))), Ar(2, by), Ar(3, by), M(B("string"), by), M(B("int"), by),
		P(by), Sl(P(by)), St(by, B("int")), St(B("string"), Sl(by)), Sl(St(by, B("int"))),
		Sl(Sl(by)), M(B("string"), Sl(by)), Ar(2, M(B("string"), by)),
		nb, Sl(nb), M(B("string"), nb), bk, Sl(bk), M(B("int"), bk), Ar(2, bk),
		Named(52, "BKK", 0, St(B("int"), Sl(by), M(B("string"), by))),
		// pointers to unnamed types in element position (the other inline expression)
		Sl(P(B("string"))), M(B("string"), P(B("int"))), Ar(2, P(B("float64"))), Sl(P(Sl(B("int")))),
	}
}

func isIntKind(b string) bool {
	switch b {
	case "int", "int8", "int16", "int32", "int64", "uint", "uint8", "byte", "uint16", "uint32", "uint64", "rune", "uintptr":
		return true
	}
	return false
}

// SmallHashValR5C18 returns a value of t (a basic type or a named basic type) whose derived hash is the
// number n (0 <= n <= 31), or nil.
func SmallHashValR5C18(t *Type, n int) *Val { return smallHashR5C18(t, map[int]*Type{}, n) }

func smallHashR5C18(t *Type, env map[int]*Type, n int) *Val {
	u := t.Under(env)
	if u.K != KBasic {
		return nil
	}
	switch {
	case isIntKind(u.Basic):
		return &Val{K: "i", Int: strconv.Itoa(n)}
	case u.Basic == "string": // one rune below 0x80: h = 31*0 + n
		if n == 0 {
			return vs("")
		}
		return vs(string(rune(n)))
	case u.Basic == "float64" || u.Basic == "float32": // the bit pattern (denormals)
		return &Val{K: "f", Mag: uint64(n)}
	case u.Basic == "bool" && n <= 1:
		return &Val{K: "b", Bool: n == 1}
	}
	return nil
}

// CollidingPairR5C18 returns two values of t that derived Equal tells apart and derived Hash does
// not, or nil when the construction knows none for t.
func (g *Gen) CollidingPairR5C18(t *Type) []*Val {
	return g.collideR5(t, map[int]*Type{}, 5)
}

func (g *Gen) zeroR5(t *Type, env map[int]*Type) *Val { return g.cl(g.pool(t, env, 1)[0]) }

func (g *Gen) collideR5(t *Type, env map[int]*Type, depth int) []*Val {
	if depth <= 0 {
		return nil
	}
	pair := func(a, b *Val) []*Val { return []*Val{a, b} }
	// two adjacent components x, y with 31*hash(x) + hash(y) equal: (1, 0) and (0, 31)
	two := func(tx, ty *Type) (a, b [2]*Val, ok bool) {
		a = [2]*Val{smallHashR5C18(tx, env, 1), smallHashR5C18(ty, env, 0)}
		b = [2]*Val{smallHashR5C18(tx, env, 0), smallHashR5C18(ty, env, 31)}
		ok = a[0] != nil && a[1] != nil && b[0] != nil && b[1] != nil
		return
	}
	switch t.K {
	case KBasic:
		if t.Basic == "string" {
			return pair(vs("Aa"), vs("BB"))
		}
		return nil
	case KNamed:
		env2 := map[int]*Type{}
		for k, v := range env {
			env2[k] = v
		}
		env2[t.ID] = t
		return g.collideR5(t.Elem, env2, depth)
	case KRef:
		if env[t.ID] == nil {
			return nil
		}
		return g.collideR5(env[t.ID].Elem, env, depth-1)
	case KPtr:
		if in := g.collideR5(t.Elem, env, depth-1); in != nil {
			return pair(&Val{K: "p", Loc: g.Fresh(), Elems: []*Val{in[0]}}, &Val{K: "p", Loc: g.Fresh(), Elems: []*Val{in[1]}})
		}
		return nil
	case KSlice:
		mk := func(es ...*Val) *Val { return &Val{K: "sl", Loc: g.Fresh(), Elems: es} }
		if in := g.collideR5(t.Elem, env, depth-1); in != nil {
			if g.R.Bool() { // a common element behind the differing one
				z := g.zeroR5(t.Elem, env)
				return pair(mk(in[0], z), mk(in[1], g.cl(z)))
			}
			return pair(mk(in[0]), mk(in[1]))
		}
		if a, b, ok := two(t.Elem, t.Elem); ok {
			return pair(mk(a[0], a[1]), mk(b[0], b[1]))
		}
		return nil
	case KArray:
		fill := func(es ...*Val) *Val {
			v := &Val{K: "a", Elems: es}
			for len(v.Elems) < t.N {
				v.Elems = append(v.Elems, g.zeroR5(t.Elem, env))
			}
			return v
		}
		if t.N >= 1 {
			if in := g.collideR5(t.Elem, env, depth-1); in != nil {
				return pair(fill(in[0]), fill(in[1]))
			}
		}
		if t.N >= 2 {
			if a, b, ok := two(t.Elem, t.Elem); ok {
				return pair(fill(a[0], a[1]), fill(b[0], b[1]))
			}
		}
		return nil
	case KMap:
		mk := func(k, v *Val) *Val { return &Val{K: "m", Loc: g.Fresh(), KVs: [][2]*Val{{k, v}}} }
		if in := g.collideR5(t.Elem, env, depth-1); in != nil {
			kp := g.pool(t.Key, env, 1)
			k := kp[len(kp)-1]
			return pair(mk(g.cl(k), in[0]), mk(g.cl(k), in[1]))
		}
		// one entry: h = 31*(31*17 + hash(k)) + hash(v)
		if a, b, ok := two(t.Key, t.Elem); ok {
			return pair(mk(a[0], a[1]), mk(b[0], b[1]))
		}
		return nil
	case KStruct:
		build := func(at int, vals ...*Val) *Val {
			v := &Val{K: "st"}
			for i, f := range t.Fields {
				if i >= at && i < at+len(vals) {
					v.Elems = append(v.Elems, vals[i-at])
				} else {
					v.Elems = append(v.Elems, g.zeroR5(f.T, env))
				}
			}
			return v
		}
		// (the unexported fields of an imported struct are not hashed: leave them alone)
		for i, f := range t.Fields {
			if f.Priv {
				continue
			}
			if in := g.collideR5(f.T, env, depth-1); in != nil {
				return pair(build(i, in[0]), build(i, in[1]))
			}
		}
		for i := 0; i+1 < len(t.Fields); i++ {
			if t.Fields[i].Priv || t.Fields[i+1].Priv {
				continue
			}
			if a, b, ok := two(t.Fields[i].T, t.Fields[i+1].T); ok {
				return pair(build(i, a[0], a[1]), build(i, b[0], b[1]))
			}
		}
		return nil
	}
	return nil
}

// NonNilPoolR5C18 returns values of t (at most n) in which every slice, map and pointer is non-nil
// and slices are non-empty with elements taken round-robin from the richest values of the element
// type — several values of the same shape and length that differ only deep inside.
func (g *Gen) NonNilPoolR5C18(t *Type, n int) []*Val {
	out := g.nonNilR5(t, map[int]*Type{}, 3)
	if len(out) > n {
		out = out[:n]
	}
	return out
}

func (g *Gen) nonNilR5(t *Type, env map[int]*Type, depth int) []*Val {
	rich := func(l []*Val) []*Val { // drop nil / empty leaders when something else exists
		var o []*Val
		for _, v := range l {
			switch v.K {
			case "nilp", "nils", "nilm":
				continue
			case "sl":
				if len(v.Elems) == 0 {
					continue
				}
			case "m":
				if len(v.KVs) == 0 {
					continue
				}
			}
			o = append(o, v)
		}
		if len(o) == 0 {
			return l
		}
		return o
	}
	if depth <= 0 {
		return rich(g.pool(t, env, 1))
	}
	switch t.K {
	case KNamed:
		env2 := map[int]*Type{}
		for k, v := range env {
			env2[k] = v
		}
		env2[t.ID] = t
		return g.nonNilR5(t.Elem, env2, depth)
	case KRef:
		return rich(g.pool(t, env, 1))
	case KPtr:
		var o []*Val
		for _, e := range g.nonNilR5(t.Elem, env, depth-1) {
			o = append(o, &Val{K: "p", Loc: g.Fresh(), Elems: []*Val{g.cl(e)}})
		}
		return o
	case KSlice:
		es := g.nonNilR5(t.Elem, env, depth-1)
		var o []*Val
		for i := range es {
			// length 1 and length 2, same shape, differing in one element only
			o = append(o, &Val{K: "sl", Loc: g.Fresh(), Elems: []*Val{g.cl(es[i])}})
			o = append(o, &Val{K: "sl", Loc: g.Fresh(), Elems: []*Val{g.cl(es[0]), g.cl(es[i])}})
		}
		return o
	case KArray:
		es := g.nonNilR5(t.Elem, env, depth-1)
		var o []*Val
		for i := range es {
			for at := 0; at < t.N; at++ {
				v := &Val{K: "a"}
				for j := 0; j < t.N; j++ {
					if j == at {
						v.Elems = append(v.Elems, g.cl(es[i]))
					} else {
						v.Elems = append(v.Elems, g.cl(es[0]))
					}
				}
				o = append(o, v)
			}
		}
		return o
	case KMap:
		es := g.nonNilR5(t.Elem, env, depth-1)
		kp := g.pool(t.Key, env, 1)
		var o []*Val
		for i := range es {
			o = append(o, &Val{K: "m", Loc: g.Fresh(), KVs: [][2]*Val{{g.cl(kp[len(kp)-1]), g.cl(es[i])}}})
		}
		return o
	case KStruct:
		var o []*Val
		for i, f := range t.Fields {
			for _, e := range g.nonNilR5(f.T, env, depth-1) {
				v := &Val{K: "st"}
				for j, f2 := range t.Fields {
					if j == i {
						v.Elems = append(v.Elems, g.cl(e))
					} else {
						v.Elems = append(v.Elems, g.cl(g.nonNilR5(f2.T, env, depth-1)[0]))
					}
				}
				o = append(o, v)
			}
		}
		return o
	}
	return rich(g.pool(t, env, 1))
}
