package ga

// extra_r5C06.go — additions of hardening round 5 for C06; nothing here changes what the existing
// functions of this package return.
//
//  1. StringerTypesR5 / StringerShapesR5: named types that carry the methods package fmt looks for under
//     verbs other than %#v (String() string, Error() string; value and pointer receivers), over every kind
//     of underlying type that the GoString plugin hands to fmt as a whole (basic types, slices / arrays /
//     maps of unnamed basic types) and over structs.  For the Coq side they are plain named types: %#v
//     calls neither method, so the methods must not show in the text.
//  2. PtrKeyTypesR5 / PtrKeyPoolR5: maps whose KEY type owns pointers (pointer keys, struct keys with a
//     pointer field, arrays of pointers, named pointers) and values in which several keys of one map are
//     different under == (different addresses) but equal by content, i.e. print the same text.  The
//     catalogue's KeyLeaves are pointer-free and Gen.pool makes the keys of a map pairwise different by
//     content, so neither existed before.

import (
	"verifharness/internal/hx"
)

// ---------- 1. method carriers ----------

// StringerTypesR5 (IDs 400–419).  No method needs an import (a user file that imports the standard
// library makes goderive load it from source).  Every method returns something that differs from the
// value's own text for every value.
func StringerTypesR5() []*Type {
	s, i := B("string"), B("int")
	level := Named(400, "Level", 0, s)
	level.Methods = "func (l Level) String() string { return \"<\" + string(l) + \">\" }\n\n"
	fault := Named(401, "Fault", 0, s)
	fault.Methods = "func (f Fault) Error() string { return \"fault: \" + string(f) }\n\n"
	code := Named(402, "Code", 0, i)
	code.Methods = "func (c Code) String() string {\n\tif c < 0 {\n\t\treturn \"negative\"\n\t}\n\treturn \"code\"\n}\n\n"
	errno := Named(403, "Errno", 0, B("uint8"))
	errno.Methods = "func (e Errno) Error() string { return \"errno\" }\n\n"
	flag := Named(404, "Flag", 0, B("bool"))
	flag.Methods = "func (f Flag) String() string {\n\tif f {\n\t\treturn \"on\"\n\t}\n\treturn \"off\"\n}\n\n"
	ratio := Named(405, "Ratio", 0, B("float64"))
	ratio.Methods = "func (r Ratio) String() string { return \"ratio\" }\n\n"
	plevel := Named(406, "PLevel", 0, s)
	plevel.Methods = "func (l *PLevel) String() string {\n\tif l == nil {\n\t\treturn \"<nil>\"\n\t}\n\treturn \"[\" + string(*l) + \"]\"\n}\n\n"
	tags := Named(407, "Tags", 0, Sl(s))
	tags.Methods = "func (t Tags) String() string { return \"tags\" }\n\n"
	attrs := Named(408, "Attrs", 0, M(s, i))
	attrs.Methods = "func (a Attrs) String() string { return \"attrs\" }\n\n"
	pt := Named(409, "Pt", 0, St(i, s))
	pt.Methods = "func (p Pt) String() string { return \"pt \" + p.F1 }\n\n"
	quad := Named(410, "Quad", 0, Ar(2, s))
	quad.Methods = "func (q Quad) Error() string { return q[0] + \"/\" + q[1] }\n\n"
	both := Named(411, "Both", 0, s)
	both.Methods = "func (b Both) String() string { return \"S:\" + string(b) }\n\nfunc (b Both) Error() string { return \"E:\" + string(b) }\n\n"
	cplx := Named(412, "Phase", 0, B("complex128"))
	cplx.Methods = "func (p Phase) String() string { return \"phase\" }\n\n"
	return []*Type{level, fault, code, errno, flag, ratio, plevel, tags, attrs, pt, quad, both, cplx}
}

// StringerShapesR5: the carriers as root type, behind a pointer, as slice / array element, map key and map
// value, as struct field, and the struct of the kind a user writes (a name, a level, levels, levels by
// name, a default level).
func StringerShapesR5() []*Type {
	ts := StringerTypesR5()
	s, i := B("string"), B("int")
	var out []*Type
	for n, t := range ts {
		out = append(out, t, P(t), Sl(t), Ar(2, t), M(s, t), St(s, t, P(t)))
		if t.Comparable() {
			out = append(out, M(t, i), M(t, t))
		}
		if n%3 == 0 {
			out = append(out, P(P(t)), M(i, Sl(t)), Sl(P(t)))
		}
	}
	level, fault, code, plevel := ts[0], ts[1], ts[2], ts[6]
	rule := Named(415, "Rule", 0, St(s, level, Sl(level), M(s, level), P(level)))
	report := Named(416, "Report", 0, St(fault, P(fault), code, Sl(code), M(code, fault), plevel, P(plevel), Ar(2, plevel)))
	out = append(out, rule, P(rule), Sl(rule), report, P(report), M(level, report))
	return out
}

// GoStringerShapesR5 (IDs 420–429): named STRUCT types whose GoString method is the derived function, the
// way the plugin is meant to be used (`func (p GPoint) GoString() string { return deriveGoStringGPoint(p) }`),
// with a value and with a pointer receiver.  %#v calls such a method on every operand it meets, map keys and
// elements included; the plugin itself never hands a struct to fmt, so the text must be what it is without
// the method.  The carriers are used as COMPONENTS only (key, element, field, pointer target): as a root
// type the harness' own deriveGoString_<i> would be a second name for the function of the same type, which
// goderive refuses (C11).  Named basic / slice / array / map types with such a VALUE-receiver method are
// not included: there the generated function prints `this` with %#v, which calls the method, which calls
// the generated function (see notes/C06.md, round 5).
func GoStringerShapesR5(c *Catalogue) []*Type {
	s, i := B("string"), B("int")
	gp := Named(420, "GPoint", 0, St(i, s))
	gp.Methods = "func (p GPoint) GoString() string { return deriveGoStringGPoint(p) }\n\n"
	gc := Named(421, "GCell", 0, St(s, P(i), Sl(s)))
	gc.Methods = "func (c *GCell) GoString() string { return deriveGoStringGCell(c) }\n\n"
	ga := Named(422, "GPair", 0, St(gp, Ar(2, i)))
	ga.Methods = "func (p GPair) GoString() string { return deriveGoStringGPair(p) }\n\n"
	holder := Named(423, "GHolder", 0, St(gp, P(gp), Sl(gp), M(gp, s), M(s, gp), P(gc), Sl(P(gc)), M(ga, i)))
	return []*Type{
		M(gp, s), M(gp, i), M(gp, B("bool")), M(ga, s), M(gp, P(i)), M(s, gp), M(i, P(gc)), Sl(gp), Sl(P(gc)), Ar(2, gp), P(gp),
		St(M(gp, s), gp), St(gp, P(gc), i), P(St(M(gp, i))), holder, P(holder), Sl(M(gp, s)), M(s, M(gp, s)),
	}
}

// ---------- 2. maps whose keys own pointers ----------

// PtrKeyTypesR5 (IDs 450–469).
func PtrKeyTypesR5(c *Catalogue) []*Type {
	s, i := B("string"), B("int")
	lab := Named(450, "Lab", 0, St(s))
	key := Named(451, "KeyP", 0, St(s, P(lab)))           // struct key with a pointer field
	key2 := Named(452, "KeyQ", 0, St(P(i), i, P(s)))      // pointers to basic types, two of them
	nptr := Named(453, "LabP", 0, P(lab))                 // named pointer type as key
	nmap := Named(454, "ByKey", 0, M(key, P(lab)))        // named map type
	karr := Named(455, "KeyA", 0, Ar(2, P(lab)))          // named array of pointers
	nest := Named(456, "KeyN", 0, St(key, i))             // pointer one struct further down
	index := Named(457, "Index", 0, St(M(c.S0, i), M(key, i), M(P(lab), s), M(s, P(lab))))
	return []*Type{
		M(key, i), M(P(lab), s), M(P(i), c.S0), M(key2, s), M(nptr, i), nmap, M(karr, Sl(i)), M(nest, P(i)),
		M(Ar(2, P(i)), i), M(St(i, P(s)), P(c.S0)), M(P(P(i)), i), M(P(c.S0), P(c.S0)), M(P(c.NInt), c.NStr),
		index, P(index), P(M(key, i)), Sl(M(P(lab), i)), M(s, M(P(lab), i)), St(M(key, s), M(P(i), i)), Ar(2, M(P(lab), s)),
		M(P(lab), M(P(lab), i)), M(key, Sl(P(lab))),
	}
}

// HasPtrKeyR5: some map type in t (declarations included) has a key type that is not pointer-free.
func HasPtrKeyR5(t *Type) bool {
	return hasPtrKey(t, map[int]bool{})
}

func hasPtrKey(t *Type, seen map[int]bool) bool {
	switch t.K {
	case KNamed:
		if seen[t.ID] {
			return false
		}
		seen[t.ID] = true
		return hasPtrKey(t.Elem, seen)
	case KPtr, KSlice, KArray:
		return hasPtrKey(t.Elem, seen)
	case KMap:
		return !t.Key.Comparable() || hasPtrKey(t.Key, seen) || hasPtrKey(t.Elem, seen)
	case KStruct:
		for _, f := range t.Fields {
			if hasPtrKey(f.T, seen) {
				return true
			}
		}
	}
	return false
}

// ownsPtr: the key value holds a non-nil pointer by value (so that a copy with fresh labels is a
// DIFFERENT key under ==).
func ownsPtr(v *Val) bool {
	switch v.K {
	case "p":
		return true
	case "st", "a":
		for _, e := range v.Elems {
			if ownsPtr(e) {
				return true
			}
		}
	}
	return false
}

// ptrKeyMaps: entry lists for a map type whose key type owns pointers.  k0, k1: keys that hold a
// non-nil pointer, different by content; kn: a key without (nil pointers only), if the pool has one.
// Every use of a key is a copy with fresh labels, i.e. another address: k0 twice = two keys of the map
// with equal targets.
func (g *Gen) ptrKeyMaps(t *Type, env map[int]*Type) [][][2]*Val {
	kp := g.pool(t.Key, env, 2)
	var with, without []*Val
	seen := map[string]bool{}
	for _, k := range kp {
		c := k.canon()
		if seen[c] {
			continue
		}
		seen[c] = true
		if ownsPtr(k) {
			with = append(with, k)
		} else {
			without = append(without, k)
		}
	}
	if len(with) == 0 {
		return nil
	}
	k0, k1 := with[0], with[len(with)-1]
	if len(with) > 2 {
		k1 = with[1+g.R.Intn(len(with)-1)]
	}
	vals := g.take(g.pool(t.Elem, env, 2), 4)
	v0, v1 := vals[0], vals[len(vals)-1]
	if len(vals) > 2 {
		v1 = vals[1+g.R.Intn(len(vals)-1)]
	}
	// a value that differs from the zero value if there is one
	mk := func(kvs ...*Val) [][2]*Val {
		var out [][2]*Val
		for j := 0; j+1 < len(kvs); j += 2 {
			out = append(out, [2]*Val{g.cl(kvs[j]), g.cl(kvs[j+1])})
		}
		return out
	}
	out := [][][2]*Val{
		mk(k0, v0, k0, v1), // the two entries differ in the value only
		mk(k0, v1, k0, v0),
		mk(k0, v1, k0, v1), // ... in nothing but the address
		mk(k0, v0, k0, v1, k0, v0),
	}
	if len(with) > 1 {
		out = append(out, mk(k0, v0, k1, v1), mk(k0, v0, k1, v1, k0, v1, k1, v0), mk(k1, v1, k0, v0, k1, v0))
	}
	if len(without) > 0 {
		kn := without[0]
		out = append(out, mk(kn, v1, k0, v0, k0, v1), mk(k0, v1, kn, v0, k0, v0))
	}
	return out
}

// PtrKeyPoolR5: Gen.Pool plus copies of pool values in which every map with pointer-owning keys is
// replaced by one of ptrKeyMaps (several keys with equal targets in one map), at whatever depth it sits.
// In every second copy only the non-empty maps are replaced (nil and empty maps stay what they are), in
// the others every such map is (the pools of pointers and structs are built from the first pool entries of
// their components, which for a map are nil and empty).
func PtrKeyPoolR5(g *Gen, t *Type, depth, extra int) []*Val {
	base := g.Pool(t, map[int]*Type{}, depth)
	out := append([]*Val{}, base...)
	var filled, any []*Val
	for _, v := range base {
		if g.twinKeys(t, v.Clone(g.Fresh), map[int]*Type{}, 0, false, map[int]*Val{}) > 0 {
			filled = append(filled, v)
		}
		if g.twinKeys(t, v.Clone(g.Fresh), map[int]*Type{}, 0, true, map[int]*Val{}) > 0 {
			any = append(any, v)
		}
	}
	hx.Shuffle(g.R, filled)
	hx.Shuffle(g.R, any)
	for round := 0; round < extra; round++ {
		src, force := filled, false
		if round%2 == 1 || len(filled) == 0 {
			src, force = any, true
		}
		if len(src) == 0 {
			continue
		}
		c := src[(round/2)%len(src)].Clone(g.Fresh)
		if g.twinKeys(t, c, map[int]*Type{}, round, force, map[int]*Val{}) > 0 {
			out = append(out, c)
		}
	}
	return out
}

// twinKeys rewrites v in place (v must be a private copy); returns the number of maps replaced.
func (g *Gen) twinKeys(t *Type, v *Val, env map[int]*Type, round int, force bool, done map[int]*Val) int {
	switch t.K {
	case KNamed:
		env2 := map[int]*Type{}
		for k, x := range env {
			env2[k] = x
		}
		env2[t.ID] = t
		return g.twinKeys(t.Elem, v, env2, round, force, done)
	case KRef:
		return g.twinKeys(env[t.ID].Elem, v, env, round, force, done)
	}
	switch v.K {
	case "p", "sl", "m":
		if d, ok := done[v.Loc]; ok {
			// a second occurrence of the same object: same contents
			v.Elems, v.Spare, v.KVs = d.Elems, d.Spare, d.KVs
			return 0
		}
		done[v.Loc] = v
	}
	n := 0
	switch t.K {
	case KPtr:
		if v.K == "p" {
			n += g.twinKeys(t.Elem, v.Elems[0], env, round, force, done)
		}
	case KSlice, KArray:
		for j, e := range v.Elems {
			n += g.twinKeys(t.Elem, e, env, round+j, force, done)
		}
	case KStruct:
		for j, f := range t.Fields {
			if j < len(v.Elems) {
				n += g.twinKeys(f.T, v.Elems[j], env, round+j, force, done)
			}
		}
	case KMap:
		if !t.Key.Comparable() && (len(v.KVs) > 0 || force) {
			if ms := g.ptrKeyMaps(t, env); len(ms) > 0 {
				if v.K != "m" {
					v.K, v.Loc = "m", g.Fresh()
				}
				v.KVs = ms[round%len(ms)]
				return 1
			}
		}
		for j, kv := range v.KVs {
			n += g.twinKeys(t.Elem, kv[1], env, round+j, force, done)
		}
	}
	return n
}

// HasTwinKeysR5: some map in v has two keys that are equal by content (they differ in addresses only).
func HasTwinKeysR5(v *Val) bool {
	found := false
	v.walk(func(x *Val) {
		if x.K != "m" {
			return
		}
		seen := map[string]bool{}
		for _, kv := range x.KVs {
			c := kv[0].canon()
			if seen[c] {
				found = true
			}
			seen[c] = true
		}
	})
	return found
}
