package c11

import (
	"fmt"
	"os"
	"path/filepath"
	"strings"

	"verifharness/internal/hx"
)

// Clashes among calls whose argument types are only known after a first generation pass (an argument
// is itself the result of a derive call): such calls are added after the reload, and the flags must
// still be honoured there.  Decided directly from the property's statement (no model involved): which
// flag combinations must fail, and that a successful run type-checks.
func runNested(cfg hx.Config, meta *hx.Meta) error {
	const head = "package p\n\ntype A struct{ X int }\n\ntype B struct{ Y string }\n\nfunc inc(i int) int { return i + 1 }\n\nfunc use(a *A, b *B, xs, ys []int) {\n"
	lines := map[string]string{
		"nestedF":  "\t_ = deriveEqualF(deriveFmapInc(inc, xs), ys)\n", // ([]int, []int), typed after the reload
		"flatF":    "\t_ = deriveEqualF(a, a)\n",                       // same name, other types: conflict
		"flatG":    "\t_ = deriveEqualG(b, b)\n",
		"nestedH":  "\t_ = deriveEqualH(deriveFmapInc(inc, ys), xs)\n",                     // other name, same types as nestedF: duplicate
		"flatI":    "\t_ = deriveEqualI(xs, ys)\n",                                         // other name, same types as nestedF: duplicate
		"nestedF2": "\t_ = deriveEqualF(deriveFmapInc(inc, ys), deriveFmapInc(inc, xs))\n", // repetition of nestedF
	}
	type scen struct {
		name          string
		body          []string
		conflict, dup bool
	}
	scens := []scen{
		{"nested-conflict", []string{"nestedF", "flatF", "flatG"}, true, false},
		{"nested-conflict-flat-first", []string{"flatF", "flatG", "nestedF"}, true, false},
		{"nested-duplicate", []string{"nestedF", "flatG", "nestedH"}, false, true},
		{"nested-duplicate-of-flat", []string{"flatI", "flatG", "nestedF"}, false, true},
		{"nested-both", []string{"nestedF", "flatF", "nestedH", "flatG"}, true, true},
		{"nested-clean", []string{"nestedF", "flatG", "nestedF2"}, false, false},
	}
	for si, sc := range scens {
		src := head
		for _, l := range sc.body {
			src += lines[l]
		}
		src += "}\n"
		for fi, fl := range [][]string{nil, {"-autoname"}, {"-dedup"}, {"-autoname", "-dedup"}} {
			a, d := fi == 1 || fi == 3, fi == 2 || fi == 3
			dir := filepath.Join(cfg.Work, fmt.Sprintf("nested-%d-%d", si, fi))
			if err := hx.Module(dir); err != nil {
				return err
			}
			if err := os.WriteFile(filepath.Join(dir, "a.go"), []byte(src), 0o644); err != nil {
				return err
			}
			g := hx.Goderive(cfg.Goderive, dir, append(append([]string{}, fl...), ".")...)
			meta.GoderiveRuns++
			meta.Cases++
			meta.Count("nested/" + sc.name)
			cmd := "goderive " + strings.Join(append(append([]string{}, fl...), "."), " ")
			report := func(class, what, out string) {
				files := map[string]string{"go.mod": "module p\n\ngo 1.24\n", "a.go": src}
				if after, err := os.ReadFile(filepath.Join(dir, "a.go")); err == nil && string(after) != src {
					files["a.go.after"] = string(after)
				}
				if gen, err := os.ReadFile(filepath.Join(dir, "derived.gen.go")); err == nil {
					files["derived.gen.go"] = string(gen)
				}
				meta.AddDirect(hx.Direct{Class: class, What: sc.name + ": " + what, Files: files, Cmd: cmd, Output: hx.Truncate(out, 3000)})
			}
			mustFail := (sc.conflict && !a) || (sc.dup && !d)
			switch {
			case g.TimedOut || rePanic.MatchString(g.Out):
				report("c11-crash", "goderive crashed or hung", g.Out)
			case g.Exit != 0 && !mustFail:
				report("c11-exit-status", fmt.Sprintf("goderive fails although every clash of the package is covered by a flag (conflict=%v dup=%v flags %v)", sc.conflict, sc.dup, fl), g.Out)
			case g.Exit == 0 && mustFail:
				report("c11-exit-status", fmt.Sprintf("goderive succeeds although a clash is not covered by a flag (conflict=%v dup=%v flags %v)", sc.conflict, sc.dup, fl), g.Out)
			case g.Exit == 0:
				if v := hx.GoVet(dir, ""); v.Exit != 0 {
					report("c11-typecheck", "goderive exit 0 but the package does not type-check", v.Out)
				}
			}
			os.RemoveAll(dir)
		}
	}
	return nil
}
