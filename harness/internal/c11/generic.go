package c11

import (
	"bufio"
	"fmt"
	"go/ast"
	"go/parser"
	"go/token"
	"go/types"
	"os"
	"path/filepath"

	"verifharness/internal/hx"
)

// Argument types that share one declaration: the instantiations of a generic type are different,
// mutually non-assignable *types.Named with one Obj() (and therefore one hint for newName).  The types
// are taken from a type-checked source, as goderive meets them; the eq matrix sent with the
// observations is computed by go/types alone (eqSpec) and is the identity.
const genericSrc = `package p

type G[T any] struct{ V T }

type H[T any] struct{ V T }

type M[K comparable, V any] map[K]V

var (
	gi  G[int]
	gs  G[string]
	hi  H[int]
	pgi *G[int]
	ggi G[G[int]]
	mis M[int, string]
	msi M[string, int]
)
`

// GenericPool: type lists over the instantiations; lists that differ in one position only, in the
// first or in a later position, by the type argument only or by the generic type only.
func GenericPool() ([]TypeList, error) {
	fset := token.NewFileSet()
	af, err := parser.ParseFile(fset, "g.go", genericSrc, 0)
	if err != nil {
		return nil, err
	}
	pkg, err := (&types.Config{}).Check("p", fset, []*ast.File{af}, nil)
	if err != nil {
		return nil, err
	}
	v := func(n string) types.Type { return pkg.Scope().Lookup(n).Type() }
	ls := [][]types.Type{
		{v("gi")},
		{v("gs")},
		{v("hi")},
		{v("gi"), v("gs")},
		{v("gi"), v("gi")},
		{v("pgi")},
		{v("ggi")},
		{v("mis")},
		{v("msi")},
	}
	var pool []TypeList
	for _, l := range ls {
		pool = append(pool, TypeList{l, HintOf(l)})
	}
	for i, x := range pool {
		for j, y := range pool {
			if eqSpec(x.Typs, y.Typs) != (i == j) {
				return nil, fmt.Errorf("generic pool: entries %d and %d are not pairwise non-assignable", i, j)
			}
		}
	}
	return pool, nil
}

// runS1Generic: every sequence of up to 3 calls of one plugin over 3 names (the prefix and the fresh-name
// candidates of the hint G) x the generic pool, in-process, under the four flag combinations.
func runS1Generic(cfg hx.Config, meta *hx.Meta) error {
	pool, err := GenericPool()
	if err != nil {
		return err
	}
	prefixes := []string{"deriveEqual"}
	var opts []Call
	for _, n := range []string{"deriveEqual", "deriveEqual_", "deriveEqual_G"} {
		for t := range pool {
			opts = append(opts, Call{0, n, t})
		}
	}
	maxK := 3
	c := &Ctx{Pool: pool, Prefixes: prefixes, Reserved: []string{}}
	cs := c.Sexp()
	path := filepath.Join(cfg.Out, "s1-generic.obs")
	f, err := os.Create(path)
	if err != nil {
		return err
	}
	w := bufio.NewWriterSize(f, 1<<20)
	nn := 0
	var seq []Call
	var rec func()
	rec = func() {
		if len(seq) > 0 {
			calls := seq
			fmt.Fprintln(w, Line("pkg", c, cs, calls, func(a, d bool) string { return RunReal(c, a, d, calls) }))
			nn++
		}
		if len(seq) == maxK {
			return
		}
		for _, o := range opts {
			if len(seq) == maxK-1 && cfg.Tier != "thorough" && o.T >= 5 && seq[0].T >= 5 {
				// quick: the third call ranges over the rarer shapes only when the first did not
				continue
			}
			seq = append(seq, o)
			rec()
			seq = seq[:len(seq)-1]
		}
	}
	rec()
	w.Flush()
	f.Close()
	meta.ObsFiles = append(meta.ObsFiles, path)
	meta.Cases += nn
	meta.Count(fmt.Sprintf("s1/instantiations of generic types, sequences<=%d calls=%d", maxK, nn))
	ex := []Call{{0, "deriveEqual", 0}, {0, "deriveEqual", 1}, {0, "deriveEqual_G", 2}}
	meta.Sample(hx.Truncate(Line("pkg", c, cs, ex, func(a, d bool) string { return RunReal(c, a, d, ex) }), 900))
	return nil
}
