package c11

import (
	"bufio"
	"fmt"
	"go/types"
	"os"
	"path/filepath"
	"strings"

	"verifharness/internal/hx"
)

// Hardening round 5: three classes of input that the packages of c11.go did not contain.
//
//  1. Arguments that are untyped constants (literals, named untyped constants).  The finder hands their
//     untyped type to SetFuncName; what counts is their default type: `f(3, 7)` is a call over (int, int),
//     `f(2.5, 1)` one over (float64, int).  go/types regards an untyped numeric constant as assignable to
//     every numeric type, so the defaulting in eq is what keeps (int), (float64), (rune) apart.
//  2. Source files whose positions are mapped by //line directives (goyacc and other generators that map
//     back to a template): the file that is rewritten is the file that was read, whatever the directive says.
//  3. -pluginprefix with one prefix extending another: a call belongs to the plugin with the longest
//     matching prefix in effect.

// ---------------------------------------------------------------------------------------
// (S1) in process
// ---------------------------------------------------------------------------------------

func tl(ts ...types.Type) TypeList { return TypeList{ts, HintOf(ts)} }

// UntypedPool: pairwise different after defaulting (the guard of the theorems: eq is the identity)
func UntypedPool() ([]TypeList, error) {
	ui, uf, ur := types.Typ[types.UntypedInt], types.Typ[types.UntypedFloat], types.Typ[types.UntypedRune]
	us, ub := types.Typ[types.UntypedString], types.Typ[types.UntypedBool]
	pool := []TypeList{
		tl(ui), tl(uf), tl(ur), tl(us), tl(ub),
		tl(types.Typ[types.Float32]), // typed, and none of the default types
		tl(ui, us), tl(uf, us),       // the difference in the first position only
		tl(ui, uf), tl(uf, ui),
		tl(types.Typ[types.Uint8], ur), tl(types.Typ[types.Uint8], ui), // typed first, the difference in a later position
	}
	for i, x := range pool {
		for j, y := range pool {
			if eqSpec(x.Typs, y.Typs) != (i == j) {
				return nil, fmt.Errorf("untyped pool: entries %d and %d are not pairwise different after defaulting", i, j)
			}
		}
	}
	return pool, nil
}

// MixedPool: every untyped constant type next to its own default type.  eq holds between the two (in both
// directions): outside the guard of the theorems, the model is driven with the matrix go/types computes and
// must still predict every run (correspondence only).
func MixedPool() []TypeList {
	return []TypeList{
		tl(types.Typ[types.UntypedInt]), tl(types.Typ[types.Int]),
		tl(types.Typ[types.UntypedFloat]), tl(types.Typ[types.Float64]),
		tl(types.Typ[types.UntypedString]), tl(types.Typ[types.String]),
	}
}

func runS1Untyped(cfg hx.Config, meta *hx.Meta) error {
	up, err := UntypedPool()
	if err != nil {
		return err
	}
	for _, job := range []struct {
		file, what string
		pool       []TypeList
		rare       int // quick: the third call ranges over pool entries >= rare only when the first two did not
	}{
		{"s1-untyped.obs", "untyped constant types", up, 5},
		{"s1-untyped-mixed.obs", "untyped constant types next to their default types (outside the guard)", MixedPool(), 99},
	} {
		// the hint of an untyped type is empty: the fresh names are prefix, prefix_, prefix_1, ...
		var opts []Call
		for _, n := range []string{"deriveEqual", "deriveEqual_", "deriveEqual_1"} {
			for t := range job.pool {
				opts = append(opts, Call{0, n, t})
			}
		}
		c := &Ctx{Pool: job.pool, Prefixes: []string{"deriveEqual"}, Reserved: []string{}}
		cs := c.Sexp()
		path := filepath.Join(cfg.Out, job.file)
		f, err := os.Create(path)
		if err != nil {
			return err
		}
		w := bufio.NewWriterSize(f, 1<<20)
		nn := 0
		var seq []Call
		var rec func()
		rec = func() {
			if len(seq) > 0 {
				calls := seq
				fmt.Fprintln(w, Line("pkg", c, cs, calls, func(a, d bool) string { return RunReal(c, a, d, calls) }))
				nn++
			}
			if len(seq) == 3 {
				return
			}
			for _, o := range opts {
				if len(seq) == 2 && cfg.Tier != "thorough" && o.T >= job.rare && (seq[0].T >= job.rare || seq[1].T >= job.rare) {
					continue
				}
				seq = append(seq, o)
				rec()
				seq = seq[:len(seq)-1]
			}
		}
		rec()
		w.Flush()
		f.Close()
		meta.ObsFiles = append(meta.ObsFiles, path)
		meta.Cases += nn
		meta.Count(fmt.Sprintf("s1/%s, sequences<=3 calls=%d", job.what, nn))
	}
	c := &Ctx{Pool: up, Prefixes: []string{"deriveEqual"}, Reserved: []string{}}
	ex := []Call{{0, "deriveEqual", 1}, {0, "deriveEqual_", 0}, {0, "deriveEqual", 2}}
	meta.Sample(hx.Truncate(Line("pkg", c, c.Sexp(), ex, func(a, d bool) string { return RunReal(c, a, d, ex) }), 900))
	return nil
}

// ---------------------------------------------------------------------------------------
// (B) end to end
// ---------------------------------------------------------------------------------------

// how a pool type is spelled as a pair of untyped constants (bool is left out: compare has no code for an
// untyped boolean constant, `deriveCompare(true, false)` is refused by the plugin whatever its name)
var e2eConsts = map[string][2]string{
	"int":     {"3", "7"},
	"float64": {"2.5", "1.5"},
	"string":  {`"a"`, `"b"`},
	"int32":   {"'a'", "'b'"},
}

// constDecls: named untyped constants for the types spelled as constants
func (p *e2ePkg) constDecls() string {
	var b strings.Builder
	for i := 0; i < p.ntypes; i++ {
		if p.lit[i] {
			v := e2eConsts[p.ty(i).goType]
			fmt.Fprintf(&b, "const k%da, k%db = %s, %s\n\n", i, i, v[0], v[1])
		}
	}
	return b.String()
}

// constArgs: the arguments of call ci over type t: literals, named constants, one of each
func (p *e2ePkg) constArgs(t, ci int) string {
	v := e2eConsts[p.ty(t).goType]
	switch ci % 3 {
	case 0:
		return v[0] + ", " + v[1]
	case 1:
		return fmt.Sprintf("k%da, k%db", t, t)
	}
	return fmt.Sprintf("k%da, %s", t, v[1])
}

// where a //line directive sits in a.go and what it names: nothing; a file that does not exist, in front of the
// package clause (the output of goyacc); the other file of the package; a later line of the file (the package
// clause keeps its position); a file of another directory
var lineDirs = []string{"", "top:a.y", "top:z.go", "mid:a.y", "top:/nonexistent-c11/gen/a.y"}

// the directive does not depend on the layout (id%2) or on the kind of user definition ((id/2)%4); more than
// half of the packages have none
var lineDirOfID = []int{0, 0, 1, 0, 2, 0, 3, 0, 4}

func (p *e2ePkg) lineDirective(pos int) string {
	d := lineDirs[p.lineDir]
	switch {
	case pos == 1 && strings.HasPrefix(d, "top:"):
		return "//line " + strings.TrimPrefix(d, "top:") + ":1\n"
	case pos == 2 && strings.HasPrefix(d, "mid:"):
		return "//line " + strings.TrimPrefix(d, "mid:") + ":40\n"
	}
	return ""
}

func (p *e2ePkg) prefs() []string {
	if p.prefixes != nil {
		return p.prefixes
	}
	return e2ePrefixes
}

// prefixes of (equal, compare) set with -pluginprefix
var e2eOverrides = [][]string{
	{"cmpEq", "cmp"},                     // compare's prefix is a prefix of equal's
	{"eq", "eqCmp"},                      // equal's prefix is a prefix of compare's
	{"deriveCompareEq", "deriveCompare"}, // equal's prefix extends the default prefix of compare
	{"deriveCompare", "deriveEqual"},     // the default prefixes, exchanged
	{"same", "order"},                    // unrelated
	{"deriveEqual", "deriveEqualOrd"},    // compare's prefix extends the default prefix of equal
}

func extraPkgs(cfg hx.Config) []*e2ePkg {
	r := hx.NewRand(cfg.Seed ^ 0xC115)
	nUntyped, nOverride := 36, 30
	if cfg.Tier == "thorough" {
		nUntyped, nOverride = 250, 150
	}
	var pkgs []*e2ePkg
	idx := func(goType string) int { return e2eTypeIndex[goType] }
	// the two witnesses of the class, with equal: no clash (two names, two numeric types), one conflict
	pkgs = append(pkgs,
		&e2ePkg{ntypes: 2, tys: []int{idx("float64"), idx("int")}, lit: map[int]bool{1: true}, class: "untyped/k=2",
			calls: []Call{{0, "deriveEqualF", 0}, {0, "deriveEqualI", 1}}},
		&e2ePkg{ntypes: 2, tys: []int{idx("int"), idx("float64")}, lit: map[int]bool{0: true, 1: true}, class: "untyped/k=2",
			calls: []Call{{0, "deriveEqual", 0}, {0, "deriveEqual", 1}}},
	)
	numeric := []int{idx("int"), idx("float64"), idx("int32")}
	others := []int{idx("N"), idx("string"), idx("[2]string")}
	for i := 0; i < nUntyped; i++ {
		k := 2 + r.Intn(3)
		p := &e2ePkg{ntypes: 3, class: fmt.Sprintf("untyped/k=%d", k), lit: map[int]bool{}}
		// two numeric types and a third type, in any order; at least one numeric type is spelled with constants
		a := r.Intn(3)
		b := (a + 1 + r.Intn(2)) % 3
		p.tys = []int{numeric[a], numeric[b], hx.Pick(r, append([]int{numeric[3-a-b]}, others...))}
		for x := 2; x > 0; x-- {
			y := r.Intn(x + 1)
			p.tys[x], p.tys[y] = p.tys[y], p.tys[x]
		}
		for j, g := range p.tys {
			if _, ok := e2eConsts[e2ePool[g].goType]; ok && r.Intn(3) > 0 {
				p.lit[j] = true
			}
		}
		if len(p.lit) == 0 {
			for j, g := range p.tys {
				if g == numeric[a] {
					p.lit[j] = true
				}
			}
		}
		// the fresh names of a type without hint: prefix, prefix_, prefix_1, prefix_2
		suffixes := []string{"", "_", "_1"}
		switch r.Intn(3) {
		case 0:
			p.reserved = []string{"deriveCompare_2", "deriveEqual_2"}
		case 1:
			p.reserved = []string{"deriveCompare_", "deriveEqual_"}
			suffixes = []string{"", "_1"}
		}
		for j := 0; j < k; j++ {
			pl := r.Intn(2)
			p.calls = append(p.calls, Call{pl, e2ePrefixes[pl] + hx.Pick(r, suffixes), r.Intn(3)})
		}
		pkgs = append(pkgs, p)
	}
	for i := 0; i < nOverride; i++ {
		k := 2 + r.Intn(3)
		p := &e2ePkg{ntypes: 3, class: fmt.Sprintf("override/k=%d", k), prefixes: e2eOverrides[i%len(e2eOverrides)]}
		suffixes := []string{"", "_", "_N"}
		switch r.Intn(3) {
		case 0:
			p.reserved = []string{p.prefixes[1] + "_i", p.prefixes[0] + "_i"}
		case 1:
			p.reserved = []string{p.prefixes[1] + "_", p.prefixes[0] + "_"}
			suffixes = []string{"", "_N"}
		}
		for j := 0; j < k; j++ {
			pl := r.Intn(2)
			if j == 1 {
				pl = 1 - p.calls[0].P // both plugins are called
			}
			c := Call{pl, p.prefixes[pl] + hx.Pick(r, suffixes), r.Intn(3)}
			if j == 1 && r.Bool() {
				c.T = p.calls[0].T // the two plugins over one type: no clash
			}
			p.calls = append(p.calls, c)
		}
		pkgs = append(pkgs, p)
	}
	return pkgs
}
