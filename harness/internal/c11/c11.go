// Package c11: correspondence harness of C11 (stub: replaced when C11 is built).
package c11

import (
	"fmt"

	"verifharness/internal/hx"
)

func Run(cfg hx.Config) (*hx.Meta, error) {
	return nil, fmt.Errorf("C11: harness not built yet")
}
