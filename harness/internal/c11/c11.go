// Package c11: name conflicts and duplicates (typesMap.SetFuncName with -autoname/-dedup).
//
// (S1) in-process, through the verif hook: every sequence of up to K calls over
// 2 plugins x 3 names x 3 pairwise non-assignable argument type lists, under the four flag
// combinations and two reserved sets, driven against the real typesMap; names returned,
// errors and final tables are written out and compared exactly with the Coq model.
// (B) end to end: sampled packages from the same space plus larger random ones with injected
// collisions are run through the goderive binary (on scratch copies: the flags make goderive
// rewrite user sources); exit status, call-site names, generated functions, type-check of the
// result and parameter types at every call site are observed.
package c11

import (
	"bufio"
	"fmt"
	"go/ast"
	"go/importer"
	"go/parser"
	"go/token"
	"go/types"
	"os"
	"path/filepath"
	"regexp"
	"sort"
	"strings"
	"sync"

	"github.com/awalterschulze/goderive/derive"

	"verifharness/internal/hx"
)

// TypeList is one argument type list of the pool, with the identifier newName derives from it.
type TypeList struct {
	Typs []types.Type
	Hint string
}

// Call is one derive call: plugin index, spelled name, pool index of its argument types.
type Call struct {
	P    int
	Name string
	T    int
}

// Ctx is the context part of an observation line.
type Ctx struct {
	Pool     []TypeList
	Prefixes []string
	Reserved []string
}

// HintOf mirrors the identifier newName takes from typs[0] (named type: its name; the listed
// basic kinds: their spelling; otherwise empty).
func HintOf(typs []types.Type) string {
	if len(typs) == 0 {
		return ""
	}
	switch t := typs[0].(type) {
	case *types.Named:
		return t.Obj().Name()
	case *types.Basic:
		switch t.Kind() {
		case types.Bool, types.Int, types.Int8, types.Int16, types.Int32, types.Int64,
			types.Uint, types.Uint8, types.Uint16, types.Uint32, types.Uint64,
			types.Float32, types.Float64, types.String:
			return t.Name()
		}
	}
	return ""
}

// eqSpec: what typesmap.go's eq is documented to decide, computed here with go/types alone (the
// repository's own eq is NOT consulted: a changed eq must show as a difference in behaviour).
func eqSpec(this, that []types.Type) bool {
	if len(this) != len(that) {
		return false
	}
	for i := range this {
		if !types.AssignableTo(types.Default(this[i]), types.Default(that[i])) {
			return false
		}
	}
	return true
}

// Sexp renders the context: hints, the eq matrix as go/types computes it, prefixes, reserved.
func (c *Ctx) Sexp() string {
	var b strings.Builder
	b.WriteString("(ctx (hints")
	for _, t := range c.Pool {
		if t.Hint == "" {
			b.WriteString(" ()")
		} else {
			b.WriteString(" (" + t.Hint + ")")
		}
	}
	b.WriteString(") (teq")
	for _, x := range c.Pool {
		b.WriteString(" (")
		for j, y := range c.Pool {
			if j > 0 {
				b.WriteByte(' ')
			}
			if eqSpec(x.Typs, y.Typs) {
				b.WriteByte('1')
			} else {
				b.WriteByte('0')
			}
		}
		b.WriteByte(')')
	}
	b.WriteString(") (prefixes (" + strings.Join(c.Prefixes, " ") + ")) (reserved (" + strings.Join(c.Reserved, " ") + ")))")
	return b.String()
}

func CallsSexp(calls []Call) string {
	var b strings.Builder
	b.WriteByte('(')
	for i, c := range calls {
		if i > 0 {
			b.WriteByte(' ')
		}
		fmt.Fprintf(&b, "(%d %s %d)", c.P, c.Name, c.T)
	}
	b.WriteByte(')')
	return b.String()
}

var reDup = regexp.MustCompile(`= \((\S+) \| (\S+)\)\s*$`)
var reConflict = regexp.MustCompile(`conflicting function names (\w+)\(`)

// ErrSexp classifies an error of SetFuncName (index -1: not observable).
func ErrSexp(i int, msg string) string {
	msg = strings.TrimSpace(msg)
	if strings.Contains(msg, "ambig") {
		if m := reDup.FindStringSubmatch(msg); m != nil {
			return fmt.Sprintf("(err %d dup %s %s)", i, m[1], m[2])
		}
	}
	if m := reConflict.FindStringSubmatch(msg); m != nil {
		return fmt.Sprintf("(err %d conflict %s)", i, m[1])
	}
	return fmt.Sprintf("(err %d unknown)", i)
}

func poolIndex(pool []TypeList, typs []types.Type) int {
	for i, t := range pool {
		if len(t.Typs) != len(typs) {
			continue
		}
		same := true
		for j := range typs {
			if t.Typs[j] != typs[j] {
				same = false
			}
		}
		if same {
			return i
		}
	}
	return -1
}

// RunReal drives fresh typesMaps (one per prefix, sharing the reserved set as newPackage does)
// through the calls and renders the outcome.
func RunReal(c *Ctx, autoname, dedup bool, calls []Call) (res string) {
	defer func() {
		if r := recover(); r != nil {
			res = "(crash)" // the typesMap panicked: never equal to a model outcome
		}
	}()
	reserved := map[string]struct{}{}
	for _, r := range c.Reserved {
		reserved[r] = struct{}{}
	}
	tms := make([]derive.TypesMap, len(c.Prefixes))
	for i, p := range c.Prefixes {
		tms[i] = derive.VerifNewTypesMap(nil, p, reserved, autoname, dedup)
	}
	names := make([]string, 0, len(calls))
	for i, cl := range calls {
		n, err := tms[cl.P].SetFuncName(cl.Name, c.Pool[cl.T].Typs...)
		if err != nil {
			return ErrSexp(i, err.Error())
		}
		names = append(names, n)
	}
	var b strings.Builder
	b.WriteString("(ok (" + strings.Join(names, " ") + ") (")
	for i, tm := range tms {
		if i > 0 {
			b.WriteByte(' ')
		}
		b.WriteByte('(')
		for j, typs := range tm.ToGenerate() {
			if j > 0 {
				b.WriteByte(' ')
			}
			fmt.Fprintf(&b, "(%s %d)", tm.GetFuncName(typs...), poolIndex(c.Pool, typs))
		}
		b.WriteByte(')')
	}
	b.WriteString("))")
	return b.String()
}

var flagCombos = [4][2]bool{{false, false}, {true, false}, {false, true}, {true, true}}

func b01(b bool) int {
	if b {
		return 1
	}
	return 0
}

// Line renders one S1 observation: the four flag combinations of one call sequence.
func Line(kind string, c *Ctx, ctxS string, calls []Call, run func(a, d bool) string) string {
	var b strings.Builder
	b.WriteString("(" + kind + " " + ctxS + " " + CallsSexp(calls) + " (")
	for i, f := range flagCombos {
		if i > 0 {
			b.WriteByte(' ')
		}
		fmt.Fprintf(&b, "(%d %d %s)", b01(f[0]), b01(f[1]), run(f[0], f[1]))
	}
	b.WriteString("))")
	return b.String()
}

// S1Pool: three pairwise non-assignable one-element type lists with the three kinds of hint.
func S1Pool() []TypeList {
	pkg := types.NewPackage("p", "p")
	a := types.NewNamed(types.NewTypeName(token.NoPos, pkg, "A", nil), types.NewStruct(nil, nil), nil)
	ls := [][]types.Type{
		{a},
		{types.Typ[types.Int]},
		{types.NewSlice(types.Typ[types.String])},
	}
	var pool []TypeList
	for _, l := range ls {
		pool = append(pool, TypeList{l, HintOf(l)})
	}
	return pool
}

func Run(cfg hx.Config) (*hx.Meta, error) {
	meta := &hx.Meta{Property: "C11", Seed: cfg.Seed, Tier: cfg.Tier}
	if err := runS1(cfg, meta); err != nil {
		return nil, err
	}
	if err := runS1Generic(cfg, meta); err != nil {
		return nil, err
	}
	if err := runS1Untyped(cfg, meta); err != nil {
		return nil, err
	}
	if err := runE2E(cfg, meta); err != nil {
		return nil, err
	}
	if err := runNested(cfg, meta); err != nil {
		return nil, err
	}
	return meta, nil
}

// ---------------------------------------------------------------------------------------
// (S1) exhaustive in-process enumeration
// ---------------------------------------------------------------------------------------

func runS1(cfg hx.Config, meta *hx.Meta) error {
	pool := S1Pool()
	prefixes := []string{"deriveEqual", "deriveCompare"}
	var options []Call
	for p, pre := range prefixes {
		for _, n := range []string{pre, pre + "_", pre + "_A"} {
			for t := range pool {
				options = append(options, Call{p, n, t})
			}
		}
	}
	reservedVariants := [][]string{
		{},
		{"deriveEqual_i", "deriveEqual_1", "deriveCompare_i", "deriveCompare_A2"},
	}
	maxK := 4
	if cfg.Tier == "thorough" {
		maxK = 5
	}
	// corpus first
	if seqs, err := readCorpus(cfg.Corpus); err == nil && len(seqs) > 0 {
		path := filepath.Join(cfg.Out, "s1-corpus.obs")
		f, err := os.Create(path)
		if err != nil {
			return err
		}
		w := bufio.NewWriter(f)
		for _, s := range seqs {
			c := &Ctx{Pool: pool, Prefixes: prefixes, Reserved: s.reserved}
			fmt.Fprintln(w, Line("pkg", c, c.Sexp(), s.calls, func(a, d bool) string { return RunReal(c, a, d, s.calls) }))
			meta.Count("s1/corpus")
		}
		w.Flush()
		f.Close()
		meta.ObsFiles = append(meta.ObsFiles, path)
	}
	n := len(options)
	var mu sync.Mutex
	var firstErr error
	counts := make([]int, n)
	// one shard per first call; every shard enumerates all continuations up to maxK calls
	hx.Parallel(n, 16, func(first int) {
		path := filepath.Join(cfg.Out, fmt.Sprintf("s1-%02d.obs", first))
		f, err := os.Create(path)
		if err != nil {
			mu.Lock()
			firstErr = err
			mu.Unlock()
			return
		}
		w := bufio.NewWriterSize(f, 1<<20)
		ctxs := make([]*Ctx, len(reservedVariants))
		ctxS := make([]string, len(reservedVariants))
		for i, rv := range reservedVariants {
			ctxs[i] = &Ctx{Pool: pool, Prefixes: prefixes, Reserved: rv}
			ctxS[i] = ctxs[i].Sexp()
		}
		seq := []Call{options[first]}
		var rec func()
		rec = func() {
			for i, c := range ctxs {
				if i > 0 && len(seq) == 5 {
					continue // the 5-call level is enumerated for the empty reserved set only
				}
				calls := seq
				fmt.Fprintln(w, Line("pkg", c, ctxS[i], calls, func(a, d bool) string { return RunReal(c, a, d, calls) }))
				counts[first]++
			}
			if len(seq) == maxK {
				return
			}
			for _, o := range options {
				seq = append(seq, o)
				rec()
				seq = seq[:len(seq)-1]
			}
		}
		rec()
		w.Flush()
		f.Close()
		mu.Lock()
		meta.ObsFiles = append(meta.ObsFiles, path)
		mu.Unlock()
	})
	if firstErr != nil {
		return firstErr
	}
	// nested prefixes: the fresh names of plugin 0 (deriveEq, deriveEq_, deriveEq_A, ...) are the
	// user-spelled names of plugin 1; they only stay apart because every registration is
	// recorded in the reserved set the typesMaps of a package share
	{
		nested := []string{"deriveEq", "deriveEq_"}
		var opts []Call
		for p, pre := range nested {
			for _, n := range []string{pre, pre + "_", pre + "_A"} {
				for t := range pool {
					opts = append(opts, Call{p, n, t})
				}
			}
		}
		c := &Ctx{Pool: pool, Prefixes: nested, Reserved: []string{}}
		cs := c.Sexp()
		path := filepath.Join(cfg.Out, "s1-nested.obs")
		f, err := os.Create(path)
		if err != nil {
			return err
		}
		w := bufio.NewWriterSize(f, 1<<20)
		nn := 0
		var seq []Call
		var rec func()
		rec = func() {
			if len(seq) > 0 {
				calls := seq
				fmt.Fprintln(w, Line("pkg", c, cs, calls, func(a, d bool) string { return RunReal(c, a, d, calls) }))
				nn++
			}
			if len(seq) == maxK-1 {
				return
			}
			for _, o := range opts {
				seq = append(seq, o)
				rec()
				seq = seq[:len(seq)-1]
			}
		}
		rec()
		w.Flush()
		f.Close()
		meta.ObsFiles = append(meta.ObsFiles, path)
		meta.Cases += nn
		meta.Count(fmt.Sprintf("s1/nested prefixes, sequences<=%d calls=%d", maxK-1, nn))
	}
	// argument type lists of different length, one a prefix of the other (the curried and the two-argument
	// form of equal/compare, tuple over 2 and 3 values): different lists, whatever their common prefix
	{
		ptypes := pool[0].Typs[0]
		itypes := pool[1].Typs[0]
		pl2 := []TypeList{
			{[]types.Type{ptypes}, HintOf([]types.Type{ptypes})},
			{[]types.Type{ptypes, ptypes}, HintOf([]types.Type{ptypes, ptypes})},
			{[]types.Type{ptypes, ptypes, ptypes}, HintOf([]types.Type{ptypes})},
			{[]types.Type{itypes}, HintOf([]types.Type{itypes})},
			{[]types.Type{itypes, itypes}, HintOf([]types.Type{itypes})},
		}
		var opts []Call
		for _, n := range []string{"deriveEqual", "deriveEqual_"} {
			for t := range pl2 {
				opts = append(opts, Call{0, n, t})
			}
		}
		c := &Ctx{Pool: pl2, Prefixes: []string{"deriveEqual"}, Reserved: []string{}}
		cs := c.Sexp()
		path := filepath.Join(cfg.Out, "s1-lengths.obs")
		f, err := os.Create(path)
		if err != nil {
			return err
		}
		w := bufio.NewWriterSize(f, 1<<20)
		nn := 0
		var seq []Call
		var rec func()
		rec = func() {
			if len(seq) > 0 {
				calls := seq
				fmt.Fprintln(w, Line("pkg", c, cs, calls, func(a, d bool) string { return RunReal(c, a, d, calls) }))
				nn++
			}
			if len(seq) == 3 {
				return
			}
			for _, o := range opts {
				seq = append(seq, o)
				rec()
				seq = seq[:len(seq)-1]
			}
		}
		rec()
		w.Flush()
		f.Close()
		meta.ObsFiles = append(meta.ObsFiles, path)
		meta.Cases += nn
		meta.Count(fmt.Sprintf("s1/type lists of different length, sequences<=3 calls=%d", nn))
	}
	total := 0
	for _, c := range counts {
		total += c
	}
	meta.Cases += total
	meta.Count(fmt.Sprintf("s1/sequences<=%d calls x %d reserved sets (x4 flag combinations each)=%d", maxK, len(reservedVariants), total))
	c := &Ctx{Pool: pool, Prefixes: prefixes, Reserved: reservedVariants[1]}
	ex := []Call{{0, "deriveEqual", 0}, {0, "deriveEqual", 1}, {0, "deriveEqual_", 1}, {1, "deriveCompare", 2}}
	meta.Sample(hx.Truncate(Line("pkg", c, c.Sexp(), ex, func(a, d bool) string { return RunReal(c, a, d, ex) }), 900))
	return nil
}

type corpusSeq struct {
	reserved []string
	calls    []Call
}

// corpus lines: `reserved,names | p:name:t p:name:t ...` (# comments)
func readCorpus(dir string) ([]corpusSeq, error) {
	b, err := os.ReadFile(filepath.Join(dir, "sequences.txt"))
	if err != nil {
		return nil, err
	}
	var out []corpusSeq
	for _, line := range strings.Split(string(b), "\n") {
		line = strings.TrimSpace(line)
		if line == "" || strings.HasPrefix(line, "#") {
			continue
		}
		parts := strings.SplitN(line, "|", 2)
		if len(parts) != 2 {
			continue
		}
		var s corpusSeq
		for _, r := range strings.Split(strings.TrimSpace(parts[0]), ",") {
			if r != "" {
				s.reserved = append(s.reserved, r)
			}
		}
		if s.reserved == nil {
			s.reserved = []string{}
		}
		for _, c := range strings.Fields(parts[1]) {
			var p, t int
			f := strings.Split(c, ":")
			if len(f) != 3 {
				continue
			}
			fmt.Sscanf(f[0], "%d", &p)
			fmt.Sscanf(f[2], "%d", &t)
			s.calls = append(s.calls, Call{p, f[1], t})
		}
		out = append(out, s)
	}
	return out, nil
}

// ---------------------------------------------------------------------------------------
// (B) end to end through the goderive binary
// ---------------------------------------------------------------------------------------

// e2e pool: pairwise non-assignable types for which equal and compare need no helper functions.
type e2eType struct {
	goType string // spelling in the user file
	hint   string
}

var e2ePool = []e2eType{
	{"N", "N"},
	{"int", "int"},
	{"[]string", ""},
	{"string", "string"},
	{"[2]string", ""},
	{"bool", "bool"},
	{"float64", "float64"},
	// same type name, same package name, two import paths (p/x/model, p/y/model)
	{"xm.T", "T"},
	{"ym.T", "T"},
	// instantiations of one generic type: different, mutually non-assignable types that share one
	// declaration (and one hint)
	{"K[int]", "K"},
	{"K[string]", "K"},
	{"K[N]", "K"},
	{"L[string]", "L"},
	// only used through tys (the classes of untyped.go): as an untyped constant it is spelled 'a' (rune)
	{"int32", "int32"},
}

const e2eGeneric = 9 // pool entries from this index on are instantiations of the generic types K and L

const e2eLocal = 7 // pool entries e2eLocal and e2eLocal+1 need an import

const e2eInt32 = 13 // the pool entry int32

var e2eModelFiles = map[string]string{
	"x/model/m.go": "package model\n\ntype T int\n",
	"y/model/m.go": "package model\n\ntype T string\n",
}

var e2ePrefixes = []string{"deriveEqual", "deriveCompare"}

type e2ePkg struct {
	id       int
	ntypes   int   // number of types of the package: the first ntypes pool entries, or
	tys      []int // (if not nil, len(tys) == ntypes) these pool entries, in this order
	resKind  int   // how the user defines the derive-like names he calls (resKinds)
	cur      bool  // type indices ntypes..2*ntypes-1 are the one-argument (curried) calls over the same types
	reserved []string
	calls    []Call
	class    string
	// the classes of untyped.go
	lit      map[int]bool // types (index in the package) whose arguments are spelled as untyped constants
	lineDir  int          // position of a //line directive in a.go (lineDirs)
	prefixes []string     // not nil: the prefixes of equal and compare, set with -pluginprefix
}

func (p *e2ePkg) source() string {
	var b strings.Builder
	b.WriteString(p.lineDirective(1))
	b.WriteString("package p\n\n")
	if p.uses(e2eLocal) {
		b.WriteString("import xm \"p/x/model\"\n")
	}
	if p.uses(e2eLocal + 1) {
		b.WriteString("import ym \"p/y/model\"\n")
	}
	b.WriteString("\ntype N int\n\ntype F float64\n\n")
	if p.usesGeneric() {
		b.WriteString("type K[T comparable] int\n\ntype L[T any] []T\n\n")
	}
	if !p.split() {
		b.WriteString(p.reservedDecls())
	}
	b.WriteString(p.constDecls())
	b.WriteString(p.lineDirective(2))
	b.WriteString("func use(")
	for i := 0; i < p.ntypes; i++ {
		if i > 0 {
			b.WriteString(", ")
		}
		fmt.Fprintf(&b, "x%d, y%d %s", i, i, p.ty(i).goType)
	}
	b.WriteString(") {\n")
	for ci, c := range p.calls {
		call := fmt.Sprintf("%s(x%d, y%d)", c.Name, c.T, c.T)
		if p.lit[c.T] {
			call = fmt.Sprintf("%s(%s)", c.Name, p.constArgs(c.T, ci))
		}
		if c.T >= p.ntypes {
			call = fmt.Sprintf("%s(x%d)", c.Name, c.T-p.ntypes)
		} else if (ci+p.id)%3 == 0 {
			// every third two-argument call sits inside a conversion to a predeclared type
			call = map[int]string{0: "bool", 1: "int"}[c.P] + "(" + call + ")"
		}
		fmt.Fprintf(&b, "\t_ = %s\n", call)
	}
	if !p.split() {
		b.WriteString(p.reservedCalls())
	}
	b.WriteString("}\n")
	return b.String()
}

// every second package keeps the user's derive-like functions and their calls in a later file (z.go)
func (p *e2ePkg) split() bool { return p.id%2 == 1 && len(p.reserved) > 0 }

// the ways in which the user can define a derive-like name that he calls (all of them are "names the user
// calls elsewhere"): a function declaration, a package level variable of function type, a type of the
// package used in a conversion, a local variable of function type
var resKinds = []string{"func", "funcvar", "type", "local"}

func (p *e2ePkg) reservedDecls() string {
	var b strings.Builder
	for _, r := range p.reserved {
		switch resKinds[p.resKind] {
		case "func":
			fmt.Fprintf(&b, "func %s(a, b int) int { return a + b }\n\n", r)
		case "funcvar":
			fmt.Fprintf(&b, "var %s = func(a, b int) int { return a + b }\n\n", r)
		case "type":
			fmt.Fprintf(&b, "type %s int\n\n", r)
		}
	}
	return b.String()
}

func (p *e2ePkg) reservedCalls() string {
	var b strings.Builder
	for _, r := range p.reserved {
		switch resKinds[p.resKind] {
		case "type":
			fmt.Fprintf(&b, "\t_ = %s(1)\n", r)
		case "local":
			fmt.Fprintf(&b, "\t%s := func(a, b int) int { return a + b }\n\t_ = %s(1, 2)\n", r, r)
		default:
			fmt.Fprintf(&b, "\t_ = %s(1, 2)\n", r)
		}
	}
	return b.String()
}

// ty: the i-th type of the package
func (p *e2ePkg) ty(i int) e2eType {
	if p.tys != nil {
		return e2ePool[p.tys[i]]
	}
	return e2ePool[i]
}

// local: the index in the package of the pool entry g (-1: not a type of the package)
func (p *e2ePkg) local(g int) int {
	if p.tys == nil {
		if g < p.ntypes {
			return g
		}
		return -1
	}
	for i, x := range p.tys {
		if x == g {
			return i
		}
	}
	return -1
}

// glob: the pool entry of the i-th type of the package
func (p *e2ePkg) glob(i int) int {
	if p.tys != nil {
		return p.tys[i]
	}
	return i
}

func (p *e2ePkg) uses(g int) bool { return p.local(g) >= 0 }

func (p *e2ePkg) usesGeneric() bool {
	for g := e2eGeneric; g < len(e2ePool); g++ {
		if p.uses(g) {
			return true
		}
	}
	return false
}

func (p *e2ePkg) sourceZ() string {
	return "package p\n\n" + p.reservedDecls() + "func useZ() {\n" + p.reservedCalls() + "}\n"
}

// nvirt: the number of argument type lists of the package (two-argument lists, and with cur the one-argument ones)
func (p *e2ePkg) nvirt() int {
	if p.cur {
		return 2 * p.ntypes
	}
	return p.ntypes
}

func (p *e2ePkg) ctxSexp() string {
	var b strings.Builder
	b.WriteString("(ctx (hints")
	for i := 0; i < p.nvirt(); i++ {
		if p.ty(i%p.ntypes).hint == "" || p.lit[i] {
			// newName takes no identifier from an untyped constant type
			b.WriteString(" ()")
		} else {
			b.WriteString(" (" + p.ty(i%p.ntypes).hint + ")")
		}
	}
	b.WriteString(") (teq")
	for i := 0; i < p.nvirt(); i++ {
		b.WriteString(" (")
		for j := 0; j < p.nvirt(); j++ {
			if j > 0 {
				b.WriteByte(' ')
			}
			b.WriteString(fmt.Sprint(b01(i == j)))
		}
		b.WriteByte(')')
	}
	b.WriteString(") (prefixes (" + strings.Join(p.prefs(), " ") + ")) (reserved (" + strings.Join(p.reserved, " ") + ")))")
	return b.String()
}

// clash predicates, computed independently of the model (per plugin)
func clashes(calls []Call) (conflict, dup bool) {
	type key struct {
		p int
		s string
	}
	byName := map[key]map[int]bool{}
	byType := map[[2]int]map[string]bool{}
	for _, c := range calls {
		k := key{c.P, c.Name}
		if byName[k] == nil {
			byName[k] = map[int]bool{}
		}
		byName[k][c.T] = true
		t := [2]int{c.P, c.T}
		if byType[t] == nil {
			byType[t] = map[string]bool{}
		}
		byType[t][c.Name] = true
	}
	for _, s := range byName {
		if len(s) > 1 {
			conflict = true
		}
	}
	for _, s := range byType {
		if len(s) > 1 {
			dup = true
		}
	}
	return
}

var srcImporterMu sync.Mutex
var srcImporter types.Importer
var srcFset = token.NewFileSet()

func checkTypes(dir string, files []string) (*types.Info, []*ast.File, *token.FileSet, error) {
	fset := token.NewFileSet()
	var afs []*ast.File
	for _, f := range files {
		af, err := parser.ParseFile(fset, filepath.Join(dir, f), nil, 0)
		if err != nil {
			return nil, nil, nil, err
		}
		afs = append(afs, af)
	}
	info := &types.Info{Uses: map[*ast.Ident]types.Object{}, Types: map[ast.Expr]types.TypeAndValue{}}
	srcImporterMu.Lock()
	if srcImporter == nil {
		srcImporter = importer.ForCompiler(srcFset, "source", nil)
	}
	conf := types.Config{Importer: lockedImporter{}}
	srcImporterMu.Unlock()
	_, err := conf.Check("p", fset, afs, info)
	return info, afs, fset, err
}

type lockedImporter struct{}

var localPkgs = map[string]*types.Package{}

func (lockedImporter) Import(path string) (*types.Package, error) {
	srcImporterMu.Lock()
	defer srcImporterMu.Unlock()
	if strings.HasPrefix(path, "p/") {
		if pk, ok := localPkgs[path]; ok {
			return pk, nil
		}
		src, ok := e2eModelFiles[strings.TrimPrefix(path, "p/")+"/m.go"]
		if !ok {
			return nil, fmt.Errorf("unknown local package %s", path)
		}
		af, err := parser.ParseFile(srcFset, path+"/m.go", src, 0)
		if err != nil {
			return nil, err
		}
		pk, err := (&types.Config{}).Check(path, srcFset, []*ast.File{af}, nil)
		if err != nil {
			return nil, err
		}
		localPkgs[path] = pk
		return pk, nil
	}
	return srcImporter.Import(path)
}

var e2eTypeIndex = func() map[string]int {
	m := map[string]int{}
	for i, t := range e2ePool {
		m[t.goType] = i
	}
	m["rune"] = e2eInt32 // the default type of an untyped rune constant is printed under its alias name
	return m
}()

func pluginOf(name string) int { return pluginOfPrefixes(e2ePrefixes, name) }

func pluginOfPrefixes(prefixes []string, name string) int {
	best, bl := -1, -1
	for i, p := range prefixes {
		if strings.HasPrefix(name, p) && len(p) > bl {
			best, bl = i, len(p)
		}
	}
	return best
}

func runE2E(cfg hx.Config, meta *hx.Meta) error {
	r := hx.NewRand(cfg.Seed ^ 0xC11)
	nSmall, nGeneric, nLarge, vetEvery := 120, 48, 60, 6
	if cfg.Tier == "thorough" {
		nSmall, nGeneric, nLarge, vetEvery = 1400, 500, 600, 4
	}
	var pkgs []*e2ePkg
	names := func(p int, hint string) []string {
		pre := e2ePrefixes[p]
		return []string{pre, pre + "_", pre + "_" + hint}
	}
	// corpus sequences also run end to end (types 0..2 of the e2e pool, same names except _A -> _N)
	if seqs, err := readCorpus(cfg.Corpus); err == nil {
		for _, s := range seqs {
			ok := true
			var calls []Call
			for _, c := range s.calls {
				c.Name = strings.Replace(c.Name, "_A", "_N", 1)
				calls = append(calls, c)
			}
			var res []string
			for _, x := range s.reserved {
				if pluginOf(x) < 0 {
					ok = false
				}
				res = append(res, x)
			}
			if ok {
				pkgs = append(pkgs, &e2ePkg{ntypes: 3, reserved: res, calls: calls, class: "corpus"})
			}
		}
	}
	// the S1 space, sampled: up to 4 (thorough 5) calls over 2 plugins x 3 names x 3 types
	// and the same space over instantiations of one generic type (K[int], K[string]: one declaration, one
	// hint, two types) and an ordinary type
	for i := 0; i < nSmall+nGeneric; i++ {
		k := 2 + r.Intn(3)
		if cfg.Tier == "thorough" {
			k = 2 + r.Intn(4)
		}
		p := &e2ePkg{ntypes: 3, class: fmt.Sprintf("small/k=%d", k)}
		hint := "N"
		if i >= nSmall {
			p.class = fmt.Sprintf("generic/k=%d", k)
			p.tys = [][]int{
				{e2eGeneric, e2eGeneric + 1, 0},
				{e2eGeneric + 1, e2eGeneric + 2, e2eGeneric},
				{e2eGeneric + 3, e2eGeneric, e2eGeneric + 1},
			}[i%3]
			hint = "K"
		}
		firstCand := false
		bare := false
		switch r.Intn(4) {
		case 3:
			// the user's functions are named exactly like the plugin prefixes (the first name newName tries)
			p.reserved = []string{"deriveCompare", "deriveEqual"}
			bare = true
		case 0:
			p.reserved = []string{"deriveEqual_i", "deriveEqual_1", "deriveCompare_i", "deriveCompare_" + hint + "2"}
		case 1:
			// the user's functions sit on the first fresh-name candidate; no derive call is spelled that way
			p.reserved = []string{"deriveCompare_", "deriveEqual_"}
			firstCand = true
		}
		for j := 0; j < k; j++ {
			pl := r.Intn(2)
			ns := names(pl, hint)
			if firstCand {
				ns = []string{ns[0], ns[2]}
			}
			if bare {
				ns = []string{ns[1], ns[2]}
			}
			p.calls = append(p.calls, Call{pl, hx.Pick(r, ns), r.Intn(3)})
		}
		pkgs = append(pkgs, p)
	}
	// larger random packages with injected collisions
	for i := 0; i < nLarge; i++ {
		k := 6 + r.Intn(14)
		nt := 4 + r.Intn(e2eGeneric-3)
		p := &e2ePkg{ntypes: nt, class: "large", cur: i%2 == 1}
		if i%3 == 2 {
			// the generic instantiations first, then the ordinary types
			p.class = "large-generic"
			for g := e2eGeneric; g < len(e2ePool); g++ {
				p.tys = append(p.tys, g)
			}
			for g := 0; len(p.tys) < nt; g++ {
				if e2ePool[g].goType == "[]string" {
					continue // assignable to and from L[string]: not a pool of pairwise non-assignable types
				}
				p.tys = append(p.tys, g)
			}
			p.tys = p.tys[:nt]
		}
		suffixes := []string{"", "_", "_N", "_i", "_in", "_int", "_1", "_2", "X", "Y", "_s", "_N2"}
		candidates := []string{"_3", "_N3", "_int4", "_st"}
		if p.tys != nil {
			// the fresh-name candidates of the generic types
			suffixes = []string{"", "_", "_K", "_L", "_K1", "_int", "_1", "_2", "X", "Y", "_s", "_K2"}
			candidates = []string{"_3", "_K3", "_L2", "_L3"}
		}
		var resv []string
		if r.Bool() {
			for _, s := range []string{"_", "_N", "_i", "_1", "_s", "Z"} {
				if r.Intn(3) == 0 {
					resv = append(resv, hx.Pick(r, e2ePrefixes)+"R"+strings.TrimPrefix(s, "_"))
				}
			}
			// reserved names that collide with fresh-name candidates (never user-spelled derive calls)
			for _, s := range candidates {
				if r.Intn(2) == 0 {
					resv = append(resv, hx.Pick(r, e2ePrefixes)+s)
				}
			}
		}
		sort.Strings(resv)
		resv = uniq(resv)
		p.reserved = resv
		for j := 0; j < k; j++ {
			pl := r.Intn(2)
			c := Call{pl, e2ePrefixes[pl] + hx.Pick(r, suffixes), r.Intn(p.nvirt())}
			if len(p.calls) > 0 && r.Intn(3) == 0 {
				// injected collision with an earlier call of the same plugin
				o := hx.Pick(r, p.calls)
				switch r.Intn(3) {
				case 0: // conflict: same name, other type
					c = Call{o.P, o.Name, r.Intn(p.nvirt())}
					if p.cur && r.Bool() {
						// the same name for the curried and the two-argument form over one type
						c.T = (o.T + p.ntypes) % (2 * p.ntypes)
					}
				case 1: // duplicate: other name, same type
					c = Call{o.P, e2ePrefixes[o.P] + hx.Pick(r, suffixes), o.T}
				default: // repetition
					c = o
				}
			}
			p.calls = append(p.calls, c)
		}
		pkgs = append(pkgs, p)
	}
	pkgs = append(pkgs, extraPkgs(cfg)...)
	for i, p := range pkgs {
		p.id = i
		if p.reserved == nil {
			p.reserved = []string{}
		}
		// split() alternates on id: both layouts see every kind of definition
		p.resKind = (i / 2) % len(resKinds)
		p.lineDir = lineDirOfID[i%len(lineDirOfID)]
		meta.Count("e2e/line directive " + lineDirs[p.lineDir])
		for _, c := range p.calls {
			if pluginOfPrefixes(p.prefs(), c.Name) != c.P {
				return fmt.Errorf("c11 harness: package %d (%s): %s is not a call of plugin %d under the prefixes %v", i, p.class, c.Name, c.P, p.prefs())
			}
		}
		if len(p.reserved) > 0 {
			meta.Count("e2e/user names defined as " + resKinds[p.resKind])
		}
	}
	// the quantifier of the property: the types of a package are pairwise non-assignable (go/types decides)
	assignable, err := e2ePoolMatrix(cfg)
	if err != nil {
		return err
	}
	for _, p := range pkgs {
		for i := 0; i < p.ntypes; i++ {
			for j := 0; j < p.ntypes; j++ {
				if gi, gj := p.glob(i), p.glob(j); assignable[gi][gj] != (i == j) {
					return fmt.Errorf("c11 harness: package %d (%s): %s and %s are not pairwise non-assignable",
						p.id, p.class, e2ePool[gi].goType, e2ePool[gj].goType)
				}
			}
		}
	}
	lines := make([]string, len(pkgs))
	var runs int
	var mu sync.Mutex
	hx.Parallel(len(pkgs), 12, func(i int) {
		p := pkgs[i]
		src := p.source()
		line := Line("e2e", nil, p.ctxSexp(), p.calls, func(a, d bool) string {
			dir := filepath.Join(cfg.Work, fmt.Sprintf("e2e-%d-%d%d", p.id, b01(a), b01(d)))
			res, n := e2eRun(cfg, meta, p, src, dir, a, d, (p.id%vetEvery) == 0)
			mu.Lock()
			runs += n
			mu.Unlock()
			os.RemoveAll(dir)
			return res
		})
		lines[i] = line
		cf, du := clashes(p.calls)
		meta.CountSafe(fmt.Sprintf("e2e/%s conflict=%v dup=%v", strings.SplitN(p.class, "/", 2)[0], cf, du))
	})
	path := filepath.Join(cfg.Out, "e2e.obs")
	if err := os.WriteFile(path, []byte(strings.Join(lines, "\n")+"\n"), 0o644); err != nil {
		return err
	}
	meta.ObsFiles = append(meta.ObsFiles, path)
	meta.Packages += len(pkgs)
	meta.GoderiveRuns += runs
	meta.Cases += len(pkgs)
	for _, l := range lines {
		if strings.Contains(l, "conflict") && strings.Contains(l, "(ok") {
			meta.Sample(hx.Truncate(l, 900))
			break
		}
	}
	return nil
}

// e2ePoolMatrix: eq (assignability of the defaulted types, as typesmap.go documents it) between the pool
// entries, computed by go/types on a package that declares a variable of every pool type.
func e2ePoolMatrix(cfg hx.Config) ([][]bool, error) {
	dir := filepath.Join(cfg.Work, "e2e-pool")
	if err := os.MkdirAll(dir, 0o755); err != nil {
		return nil, err
	}
	defer os.RemoveAll(dir)
	var b strings.Builder
	b.WriteString("package p\n\nimport xm \"p/x/model\"\nimport ym \"p/y/model\"\n\ntype N int\n\ntype K[T comparable] int\n\ntype L[T any] []T\n\n")
	for i, t := range e2ePool {
		fmt.Fprintf(&b, "var v%d %s\n", i, t.goType)
	}
	if err := os.WriteFile(filepath.Join(dir, "pool.go"), []byte(b.String()), 0o644); err != nil {
		return nil, err
	}
	info, afs, _, err := checkTypes(dir, []string{"pool.go"})
	if err != nil {
		return nil, err
	}
	var typs []types.Type
	for _, d := range afs[0].Decls {
		if gd, ok := d.(*ast.GenDecl); ok && gd.Tok == token.VAR {
			for _, sp := range gd.Specs {
				typs = append(typs, info.Types[sp.(*ast.ValueSpec).Type].Type)
			}
		}
	}
	if len(typs) != len(e2ePool) {
		return nil, fmt.Errorf("c11 harness: pool package: %d variables for %d pool entries", len(typs), len(e2ePool))
	}
	m := make([][]bool, len(typs))
	for i, x := range typs {
		for _, y := range typs {
			m[i] = append(m[i], eqSpec([]types.Type{x, x}, []types.Type{y, y}))
		}
	}
	return m, nil
}

func uniq(l []string) []string {
	var out []string
	for i, s := range l {
		if i == 0 || s != l[i-1] {
			out = append(out, s)
		}
	}
	return out
}

var rePanic = regexp.MustCompile(`(?m)^(panic:|goroutine \d+ \[|fatal error:)`)

// e2eRun runs goderive with the flags on a scratch copy of the package and renders the outcome
// in the format of RunReal (error index -1); violations the harness can decide alone are
// recorded as direct findings.
func e2eRun(cfg hx.Config, meta *hx.Meta, p *e2ePkg, src, dir string, a, d, vet bool) (string, int) {
	if err := hx.Module(dir); err != nil {
		return "(harness-error)", 0
	}
	if err := os.WriteFile(filepath.Join(dir, "a.go"), []byte(src), 0o644); err != nil {
		return "(harness-error)", 0
	}
	if err := hx.WriteFiles(dir, e2eModelFiles); err != nil {
		return "(harness-error)", 0
	}
	userFiles := []string{"a.go"}
	os.Remove(filepath.Join(dir, "z.go"))
	if p.split() {
		if err := os.WriteFile(filepath.Join(dir, "z.go"), []byte(p.sourceZ()), 0o644); err != nil {
			return "(harness-error)", 0
		}
		userFiles = append(userFiles, "z.go")
	}
	var args []string
	if a {
		args = append(args, "-autoname")
	}
	if d {
		args = append(args, "-dedup")
	}
	if p.prefixes != nil {
		args = append(args, "-pluginprefix=equal="+p.prefixes[0]+",compare="+p.prefixes[1])
	}
	args = append(args, ".")
	cmd := "goderive " + strings.Join(args, " ")
	g := hx.Goderive(cfg.Goderive, dir, args...)
	files := map[string]string{"go.mod": "module p\n\ngo 1.24\n", "a.go": src}
	if p.split() {
		files["z.go"] = p.sourceZ()
	}
	if p.uses(e2eLocal) || p.uses(e2eLocal+1) {
		for k, v := range e2eModelFiles {
			files[k] = v
		}
	}
	direct := func(class, what, out string) {
		f := map[string]string{}
		for k, v := range files {
			f[k] = v
		}
		if after, err := os.ReadFile(filepath.Join(dir, "a.go")); err == nil && string(after) != src {
			f["a.go.after"] = string(after)
		}
		if gen, err := os.ReadFile(filepath.Join(dir, "derived.gen.go")); err == nil {
			f["derived.gen.go"] = string(gen)
		}
		meta.AddDirect(hx.Direct{Class: class, What: what, Files: f, Cmd: cmd, Output: hx.Truncate(out, 3000)})
	}
	if g.TimedOut || rePanic.MatchString(g.Out) {
		direct("c11-crash", "goderive crashed or hung on a package with name clashes", g.Out)
		return "(crash)", 1
	}
	conflict, dup := clashes(p.calls)
	if g.Exit != 0 {
		// independent exit-status predicate
		bad := ""
		switch {
		case !a && !d && !conflict && !dup:
			bad = "fails without flags although no name has two type lists and no type list two names"
		case a && d:
			bad = "fails although both -autoname and -dedup are set"
		case !conflict && !dup:
			bad = "fails on a package without any clash"
		}
		if bad != "" {
			direct("c11-exit-status", "goderive "+bad, g.Out)
		}
		last := ""
		for _, l := range strings.Split(strings.TrimSpace(g.Out), "\n") {
			if !strings.HasPrefix(l, "changing function call name") {
				last = l
			}
		}
		if i := strings.Index(last, "Add Error: "); i >= 0 {
			last = last[i+len("Add Error: "):]
			if j := strings.Index(last, ": "); j >= 0 {
				last = last[j+2:] // drop the plugin name
			}
		}
		return ErrSexp(-1, last), 1
	}
	bad := ""
	switch {
	case !a && !d && (conflict || dup):
		bad = "succeeds without flags although the package has a conflict or a duplicate"
	case a && !d && dup && !conflict:
		bad = "succeeds with -autoname alone on a package whose only clashes are duplicates"
	case !a && d && conflict && !dup:
		bad = "succeeds with -dedup alone on a package whose only clashes are conflicts"
	}
	if bad != "" {
		direct("c11-exit-status", "goderive "+bad, g.Out)
	}
	// the package must type-check, and every call site must invoke a function whose parameters
	// are exactly its argument types
	info, afs, _, err := checkTypes(dir, append([]string{"a.go", "derived.gen.go"}, userFiles[1:]...))
	if err != nil {
		direct("c11-typecheck", "goderive exit 0 but the package does not type-check", err.Error())
		return "(typecheck-failed)", 1
	}
	var names []string
	nres := 0
	ast.Inspect(afs[0], func(n ast.Node) bool {
		as, ok := n.(*ast.AssignStmt)
		if !ok || len(as.Rhs) != 1 {
			return true
		}
		call, ok := as.Rhs[0].(*ast.CallExpr)
		if !ok {
			return true
		}
		id, ok := call.Fun.(*ast.Ident)
		if !ok {
			return true
		}
		if (id.Name == "bool" || id.Name == "int") && len(call.Args) == 1 {
			// the conversion the harness wrapped around the call
			if inner, ok := call.Args[0].(*ast.CallExpr); ok {
				if iid, ok := inner.Fun.(*ast.Ident); ok {
					call, id = inner, iid
				}
			}
		}
		if len(names) >= len(p.calls) {
			nres++
			return true
		}
		names = append(names, id.Name)
		fn, _ := info.Uses[id].(*types.Func)
		if fn == nil {
			direct("c11-callsite-types", "call site "+id.Name+" does not resolve to a function", "")
			return true
		}
		sig := fn.Type().(*types.Signature)
		if sig.Params().Len() != len(call.Args) {
			direct("c11-callsite-types", "call site "+id.Name+": arity differs", sig.String())
			return true
		}
		for k, arg := range call.Args {
			if tv := info.Types[arg]; tv.Value != nil {
				// an untyped constant takes the type of the parameter: the type the call was written for is the
				// default type of the constant, which is the type of the pool entry
				want := p.ty(p.calls[len(names)-1].T % p.ntypes).goType
				got := types.TypeString(sig.Params().At(k).Type(), func(*types.Package) string { return "" })
				if got == "rune" {
					got = "int32"
				}
				if got != want {
					direct("c11-callsite-types", fmt.Sprintf("call site %s: parameter %d of the generated function has type %s, the argument is an untyped constant whose default type is %s",
						id.Name, k, got, want), sig.String())
				}
				continue
			}
			if !types.Identical(sig.Params().At(k).Type(), info.Types[arg].Type) {
				direct("c11-callsite-types", fmt.Sprintf("call site %s: parameter %d of the generated function has type %s, the argument %s",
					id.Name, k, sig.Params().At(k).Type(), info.Types[arg].Type), sig.String())
			}
		}
		return true
	})
	// generated functions, grouped by plugin in file order
	tables := make([][]string, len(p.prefs()))
	perClass := map[[2]int]int{}
	for _, decl := range afs[1].Decls {
		fd, ok := decl.(*ast.FuncDecl)
		if !ok || fd.Recv != nil {
			continue
		}
		pl := pluginOfPrefixes(p.prefs(), fd.Name.Name)
		if pl < 0 || fd.Type.Params == nil || len(fd.Type.Params.List) == 0 {
			continue
		}
		ts := types.ExprString(fd.Type.Params.List[0].Type)
		ti := -1
		if g, ok := e2eTypeIndex[ts]; ok {
			ti = p.local(g)
		}
		if nt, isNamed := info.Types[fd.Type.Params.List[0].Type].Type.(*types.Named); isNamed && nt.Obj().Pkg() != nil {
			switch nt.Obj().Pkg().Path() {
			case "p/x/model":
				ti = p.local(e2eLocal)
			case "p/y/model":
				ti = p.local(e2eLocal + 1)
			}
		}
		nparams := 0
		for _, f := range fd.Type.Params.List {
			nparams += len(f.Names)
		}
		if nparams == 1 && ti >= 0 {
			ti += p.ntypes // the one-argument form
		}
		tables[pl] = append(tables[pl], fmt.Sprintf("(%s %d)", fd.Name.Name, ti))
		perClass[[2]int{pl, ti}]++
		for _, rn := range p.reserved {
			if rn == fd.Name.Name {
				direct("c11-reserved-taken", "a generated function takes the name "+rn+" of a function the user defines and calls", "")
			}
		}
	}
	for k, n := range perClass {
		if n > 1 {
			direct("c11-dedup-count", fmt.Sprintf("%d functions generated for plugin %s and type %d", n, p.prefs()[k[0]], k[1]), "")
		}
	}
	if vet {
		v := hx.GoVet(dir, "")
		if v.Exit != 0 {
			direct("c11-vet", "goderive exit 0 but go vet fails on the result", v.Out)
		}
	}
	if !a && !d {
		if after, err := os.ReadFile(filepath.Join(dir, "a.go")); err == nil && string(after) != src {
			direct("c11-rewrite-without-flag", "user source rewritten although neither flag is set", "")
		}
	}
	if p.split() {
		// no derive call of z.go is ever renamed: the file stays as it is
		if after, err := os.ReadFile(filepath.Join(dir, "z.go")); err == nil && string(after) != p.sourceZ() {
			direct("c11-other-file-rewritten", "z.go, in which no call was renamed, was rewritten", string(after))
		}
	}
	var b strings.Builder
	b.WriteString("(ok (" + strings.Join(names, " ") + ") (")
	for i, t := range tables {
		if i > 0 {
			b.WriteByte(' ')
		}
		b.WriteString("(" + strings.Join(t, " ") + ")")
	}
	b.WriteString("))")
	return b.String(), 1
}
