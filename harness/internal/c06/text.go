package c06

import (
	"fmt"
	"go/ast"
	"go/parser"
	"go/token"
	"math"
	"math/big"
	"strconv"
	"strings"

	"verifharness/internal/ga"
)

// conv turns the text returned by a derived GoString function into the s-expression format of
// coq/theories/GoStr/Match.v.  It is purely syntactic: it knows the statement forms of the
// fragment, the names of the declared types (to print a qualified name as (ref ID)) and that
// the harness names struct fields F<i>.  Anything else is an error ("unparsed").
type conv struct {
	names map[string]*ga.Type // "lib.NInt", "ext.E3" -> declaration
	pkgs  map[string]bool     // package qualifiers seen in the text
}

func newConv(decls map[int]*ga.Type) *conv {
	c := &conv{names: map[string]*ga.Type{}, pkgs: map[string]bool{}}
	for _, d := range decls {
		if f := ga.HAFormOf(d.ID); f != nil && f.Generic != "" {
			// an instance of a generic type is written lib.G[args]: keyed by the arguments as they are read back
			var as []string
			for _, a := range f.Args {
				as = append(as, a.RefSexp())
			}
			c.names[pkgName(d.Ext)+"."+f.Generic+"["+strings.Join(as, ",")+"]"] = d
			continue
		}
		c.names[pkgName(d.Ext)+"."+d.Name] = d
	}
	return c
}

// pkgName: the NAME (not the path, not an alias) of the package a type is declared in.
func pkgName(ext int) string {
	if ext == 0 {
		return "lib"
	}
	return "ext"
}

func (c *conv) Text(text string) (s string, err error) {
	defer func() {
		if r := recover(); r != nil {
			err = fmt.Errorf("%v", r)
		}
	}()
	e, perr := parser.ParseExpr(text)
	if perr != nil {
		return "", perr
	}
	return c.expr(e), nil
}

func fail(format string, a ...interface{}) { panic(fmt.Sprintf(format, a...)) }

// ---------- types ----------

func (c *conv) typ(e ast.Expr) string {
	switch t := e.(type) {
	case *ast.Ident:
		s := ga.B(t.Name).Sexp()
		if s == "" {
			fail("unknown type name %s", t.Name)
		}
		return s
	case *ast.SelectorExpr:
		x, ok := t.X.(*ast.Ident)
		if !ok {
			fail("qualified type")
		}
		c.pkgs[x.Name] = true
		d, ok := c.names[x.Name+"."+t.Sel.Name]
		if !ok {
			fail("unknown type %s.%s", x.Name, t.Sel.Name)
		}
		return fmt.Sprintf("(ref %d)", d.ID)
	case *ast.IndexExpr, *ast.IndexListExpr:
		d := c.instance(e)
		if d == nil {
			fail("unknown generic instance")
		}
		return fmt.Sprintf("(ref %d)", d.ID)
	case *ast.StarExpr:
		return "(ptr " + c.typ(t.X) + ")"
	case *ast.ArrayType:
		if t.Len == nil {
			return "(slice " + c.typ(t.Elt) + ")"
		}
		l, ok := t.Len.(*ast.BasicLit)
		if !ok || l.Kind != token.INT {
			fail("array length")
		}
		return "(array " + l.Value + " " + c.typ(t.Elt) + ")"
	case *ast.MapType:
		return "(map " + c.typ(t.Key) + " " + c.typ(t.Value) + ")"
	case *ast.StructType:
		var b strings.Builder
		b.WriteString("(struct")
		i := 0
		for _, f := range t.Fields.List {
			if len(f.Names) == 0 {
				fail("embedded field in an unnamed struct type")
			}
			for _, n := range f.Names {
				idx, priv := fieldIndex(n.Name)
				if idx != i {
					fail("field %s at position %d", n.Name, i)
				}
				fmt.Fprintf(&b, " (%d %s)", b2i(priv), c.typ(f.Type))
				i++
			}
		}
		b.WriteString(")")
		return b.String()
	}
	fail("type expression %T", e)
	return ""
}

func b2i(b bool) int {
	if b {
		return 1
	}
	return 0
}

// fieldIndex: F3 -> 3, exported; f3 -> 3, unexported.
func fieldIndex(name string) (int, bool) {
	if len(name) < 2 || (name[0] != 'F' && name[0] != 'f') {
		fail("field name %s", name)
	}
	n, err := strconv.Atoi(name[1:])
	if err != nil {
		fail("field name %s", name)
	}
	return n, name[0] == 'f'
}

// instance: the declaration of pkg.G[args] (nil if e is not such an expression or it is unknown).
func (c *conv) instance(e ast.Expr) *ga.Type {
	var x ast.Expr
	var args []ast.Expr
	switch t := e.(type) {
	case *ast.IndexExpr:
		x, args = t.X, []ast.Expr{t.Index}
	case *ast.IndexListExpr:
		x, args = t.X, t.Indices
	default:
		return nil
	}
	sel, ok := x.(*ast.SelectorExpr)
	if !ok {
		return nil
	}
	pk, ok := sel.X.(*ast.Ident)
	if !ok {
		return nil
	}
	c.pkgs[pk.Name] = true
	var as []string
	for _, a := range args {
		as = append(as, c.typ(a))
	}
	return c.names[pk.Name+"."+sel.Sel.Name+"["+strings.Join(as, ",")+"]"]
}

// kindOf: "map", "seq" for the type of a composite literal.
func (c *conv) litKind(e ast.Expr) string {
	switch t := e.(type) {
	case *ast.MapType:
		return "mapl"
	case *ast.ArrayType:
		return "seq"
	case *ast.IndexExpr, *ast.IndexListExpr:
		if d := c.instance(e); d != nil {
			switch d.Elem.K {
			case ga.KMap:
				return "mapl"
			case ga.KSlice, ga.KArray:
				return "seq"
			}
		}
	case *ast.SelectorExpr:
		x, _ := t.X.(*ast.Ident)
		if x != nil {
			if d, ok := c.names[x.Name+"."+t.Sel.Name]; ok {
				switch d.Elem.K {
				case ga.KMap:
					return "mapl"
				case ga.KSlice, ga.KArray:
					return "seq"
				}
			}
		}
	}
	fail("composite literal of type %T", e)
	return ""
}

// ---------- literals ----------

func magBits(f64 float64, f32 float32) (uint64, uint64) {
	return math.Float64bits(math.Abs(f64)), uint64(math.Float32bits(float32(math.Abs(float64(f32)))))
}

func (c *conv) num(e ast.Expr) string {
	neg := false
	for {
		if u, ok := e.(*ast.UnaryExpr); ok && (u.Op == token.SUB || u.Op == token.ADD) {
			if u.Op == token.SUB {
				neg = !neg
			}
			e = u.X
			continue
		}
		break
	}
	if id, ok := e.(*ast.Ident); ok && id.Name == "Inf" {
		// %#v of an infinite float: +Inf / -Inf (not a Go expression; outside the property)
		return fmt.Sprintf("(inf %d)", b2i(neg))
	}
	l, ok := e.(*ast.BasicLit)
	if !ok {
		fail("number expected, found %T", e)
	}
	return numLit(neg, l.Kind, l.Value)
}

func numLit(neg bool, kind token.Token, text string) string {
	switch kind {
	case token.INT:
		x, ok := new(big.Int).SetString(text, 0)
		if !ok {
			fail("integer literal %s", text)
		}
		f := new(big.Float).SetInt(x)
		f64, _ := f.Float64()
		f32, _ := f.Float32()
		m64, m32 := magBits(f64, f32)
		return fmt.Sprintf("(num %d 1 %s %d %d)", b2i(neg), x.String(), m64, m32)
	case token.FLOAT:
		f64, err := strconv.ParseFloat(text, 64)
		if err != nil && !math.IsInf(f64, 0) {
			fail("float literal %s", text)
		}
		f32, _ := strconv.ParseFloat(text, 32)
		m64, m32 := magBits(f64, float32(f32))
		return fmt.Sprintf("(num %d 0 0 %d %d)", b2i(neg), m64, m32)
	}
	fail("numeric literal kind %v", kind)
	return ""
}

func (c *conv) lit(e ast.Expr) string {
	switch l := e.(type) {
	case *ast.BasicLit:
		switch l.Kind {
		case token.INT, token.FLOAT:
			return c.num(e)
		case token.STRING:
			s, err := strconv.Unquote(l.Value)
			if err != nil {
				fail("string literal")
			}
			var b strings.Builder
			b.WriteString("(str")
			for i := 0; i < len(s); i++ {
				fmt.Fprintf(&b, " %d", s[i])
			}
			b.WriteString(")")
			return b.String()
		}
	case *ast.UnaryExpr:
		return c.num(e)
	case *ast.Ident:
		switch l.Name {
		case "true":
			return "(bool 1)"
		case "false":
			return "(bool 0)"
		}
	case *ast.ParenExpr:
		// (re+imi)
		b, ok := l.X.(*ast.BinaryExpr)
		if !ok || (b.Op != token.ADD && b.Op != token.SUB) {
			fail("complex literal")
		}
		if id, ok := b.Y.(*ast.Ident); ok && id.Name == "Infi" {
			return "(cplx " + c.num(b.X) + fmt.Sprintf(" (inf %d))", b2i(b.Op == token.SUB))
		}
		im, ok := b.Y.(*ast.BasicLit)
		if !ok || im.Kind != token.IMAG {
			fail("complex literal")
		}
		t := strings.TrimSuffix(im.Value, "i")
		k := token.FLOAT
		if _, ok := new(big.Int).SetString(t, 0); ok && !strings.ContainsAny(t, ".eEpP") {
			k = token.INT
		}
		return "(cplx " + c.num(b.X) + " " + numLit(b.Op == token.SUB, k, t) + ")"
	case *ast.CompositeLit:
		if l.Type == nil {
			fail("untyped composite literal")
		}
		kind := c.litKind(l.Type)
		var b strings.Builder
		b.WriteString("(" + kind + " " + c.typ(l.Type))
		for _, el := range l.Elts {
			if kind == "mapl" {
				kv, ok := el.(*ast.KeyValueExpr)
				if !ok {
					fail("map literal element")
				}
				b.WriteString(" (" + c.lit(kv.Key) + " " + c.lit(kv.Value) + ")")
			} else {
				if _, ok := el.(*ast.KeyValueExpr); ok {
					fail("indexed element")
				}
				b.WriteString(" " + c.lit(el))
			}
		}
		b.WriteString(")")
		return b.String()
	}
	fail("literal %T", e)
	return ""
}

// ---------- expressions and closures ----------

func (c *conv) expr(e ast.Expr) string {
	call, ok := e.(*ast.CallExpr)
	if !ok {
		return c.lit(e)
	}
	fl, ok := call.Fun.(*ast.FuncLit)
	if !ok {
		fail("call of %T", call.Fun)
	}
	ft := fl.Type
	if ft.Results == nil || len(ft.Results.List) != 1 || len(ft.Results.List[0].Names) != 0 {
		fail("closure result")
	}
	res := ft.Results.List[0].Type
	if ft.Params != nil && len(ft.Params.List) == 1 {
		// func (v B) *B { return &v }(lit)
		p := ft.Params.List[0]
		if len(p.Names) != 1 || len(call.Args) != 1 || len(fl.Body.List) != 1 {
			fail("pointer literal shape")
		}
		st, ok := res.(*ast.StarExpr)
		if !ok || c.typ(st.X) != c.typ(p.Type) || !sameTypeText(st.X, p.Type) {
			fail("pointer literal result type")
		}
		r, ok := fl.Body.List[0].(*ast.ReturnStmt)
		if !ok || len(r.Results) != 1 {
			fail("pointer literal body")
		}
		u, ok := r.Results[0].(*ast.UnaryExpr)
		if !ok || u.Op != token.AND {
			fail("pointer literal body")
		}
		if id, ok := u.X.(*ast.Ident); !ok || id.Name != p.Names[0].Name {
			fail("pointer literal body")
		}
		return "(ptrlit " + c.typ(p.Type) + " " + c.lit(call.Args[0]) + ")"
	}
	if (ft.Params != nil && len(ft.Params.List) != 0) || len(call.Args) != 0 {
		fail("closure parameters")
	}
	return c.closure(res, fl.Body.List)
}

func sameTypeText(a, b ast.Expr) bool {
	ai, ok1 := a.(*ast.Ident)
	bi, ok2 := b.(*ast.Ident)
	return ok1 && ok2 && ai.Name == bi.Name
}

func isIdent(e ast.Expr, name string) bool {
	id, ok := e.(*ast.Ident)
	return ok && id.Name == name && name != ""
}

func emptyComposite(e ast.Expr) (ast.Expr, bool) {
	cl, ok := e.(*ast.CompositeLit)
	if !ok || len(cl.Elts) != 0 || cl.Type == nil {
		return nil, false
	}
	return cl.Type, true
}

func (c *conv) closure(res ast.Expr, body []ast.Stmt) string {
	if len(body) == 0 {
		fail("empty closure")
	}
	head := "none"
	this := ""
	isMap := false
	stmts := body
	// the first statement may declare the variable
	if as, ok := body[0].(*ast.AssignStmt); ok && as.Tok == token.DEFINE && len(as.Lhs) == 1 && len(as.Rhs) == 1 {
		name := as.Lhs[0].(*ast.Ident).Name
		rhs := as.Rhs[0]
		h := ""
		if u, ok := rhs.(*ast.UnaryExpr); ok && u.Op == token.AND {
			if t, ok := emptyComposite(u.X); ok {
				h = "(addr " + c.typ(t) + ")"
			}
		} else if t, ok := emptyComposite(rhs); ok {
			h = "(arr " + c.typ(t) + ")"
		} else if call, ok := rhs.(*ast.CallExpr); ok {
			switch {
			case isIdent(call.Fun, "new") && len(call.Args) == 1:
				h = "(new " + c.typ(call.Args[0]) + ")"
			case isIdent(call.Fun, "make") && len(call.Args) == 2:
				n, ok := call.Args[1].(*ast.BasicLit)
				if !ok || n.Kind != token.INT {
					fail("make length")
				}
				h = "(mksl " + c.typ(call.Args[0]) + " " + n.Value + ")"
			case isIdent(call.Fun, "make") && len(call.Args) == 1:
				h = "(mkmap " + c.typ(call.Args[0]) + ")"
				isMap = true
			}
		}
		if h != "" {
			head, this, stmts = h, name, body[1:]
		}
	}
	if len(stmts) == 0 {
		fail("closure without return")
	}
	ret, ok := stmts[len(stmts)-1].(*ast.ReturnStmt)
	if !ok || len(ret.Results) != 1 {
		fail("closure does not end in a return of one value")
	}
	stmts = stmts[:len(stmts)-1]
	keys := map[string]int{}
	var b strings.Builder
	b.WriteString("(clo " + c.typ(res) + " " + head + " (")
	for i, st := range stmts {
		if i > 0 {
			b.WriteByte(' ')
		}
		as, ok := st.(*ast.AssignStmt)
		if !ok || len(as.Lhs) != 1 || len(as.Rhs) != 1 {
			fail("statement %T", st)
		}
		rhs := c.expr(as.Rhs[0])
		if as.Tok == token.DEFINE {
			name := as.Lhs[0].(*ast.Ident).Name
			if _, dup := keys[name]; dup || name == this {
				fail("variable %s declared twice", name)
			}
			keys[name] = len(keys)
			fmt.Fprintf(&b, "(key %d %s)", keys[name], rhs)
			continue
		}
		if as.Tok != token.ASSIGN {
			fail("assignment operator")
		}
		switch l := as.Lhs[0].(type) {
		case *ast.SelectorExpr:
			if !isIdent(l.X, this) {
				fail("field of another variable")
			}
			idx, _ := fieldIndex(l.Sel.Name)
			fmt.Fprintf(&b, "(setf %d %s)", idx, rhs)
		case *ast.StarExpr:
			if !isIdent(l.X, this) {
				fail("target of another variable")
			}
			fmt.Fprintf(&b, "(setd %s)", rhs)
		case *ast.IndexExpr:
			if !isIdent(l.X, this) {
				fail("index of another variable")
			}
			if id, ok := l.Index.(*ast.Ident); ok && id.Name != "true" && id.Name != "false" {
				j, ok := keys[id.Name]
				if !ok {
					fail("undeclared key variable %s", id.Name)
				}
				fmt.Fprintf(&b, "(setkv %d %s)", j, rhs)
			} else if isMap {
				fmt.Fprintf(&b, "(setkl %s %s)", c.lit(l.Index), rhs)
			} else {
				n, ok := l.Index.(*ast.BasicLit)
				if !ok || n.Kind != token.INT {
					fail("index")
				}
				fmt.Fprintf(&b, "(seti %s %s)", n.Value, rhs)
			}
		default:
			fail("assignment target %T", as.Lhs[0])
		}
	}
	b.WriteString(") ")
	r := ret.Results[0]
	switch {
	case isIdent(r, "nil"):
		b.WriteString("nil")
	case isIdent(r, this):
		b.WriteString("this")
	default:
		done := false
		if s, ok := r.(*ast.StarExpr); ok && isIdent(s.X, this) {
			b.WriteString("deref")
			done = true
		} else if u, ok := r.(*ast.UnaryExpr); ok && u.Op == token.AND {
			if t, ok := emptyComposite(u.X); ok {
				b.WriteString("(addr0 " + c.typ(t) + ")")
				done = true
			}
		}
		if !done {
			b.WriteString("(lit " + c.lit(r) + ")")
		}
	}
	b.WriteString(")")
	return b.String()
}
