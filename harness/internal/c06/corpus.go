package c06

import (
	"fmt"
	"os"
	"path/filepath"
	"sort"
	"strconv"
	"strings"

	"verifharness/internal/ga"
)

// Regression corpus: corpus/C06/*.txt, one case per line: `TYPE <tab> VALUE` in the
// interchange formats of Go/Ty.v and Go/Val.v ('#' starts a comment line).  Named types are
// referred to by the IDs of the catalogue (ga.NewCatalogue and extraTypes).

type ccase struct {
	t *ga.Type
	v *ga.Val
}

type node struct {
	atom string
	list []*node
	isL  bool
}

func parseNode(s string, pos *int) (*node, error) {
	for *pos < len(s) && (s[*pos] == ' ' || s[*pos] == '\t') {
		*pos++
	}
	if *pos >= len(s) {
		return nil, fmt.Errorf("sexp: eof")
	}
	if s[*pos] == '(' {
		*pos++
		n := &node{isL: true}
		for {
			for *pos < len(s) && s[*pos] == ' ' {
				*pos++
			}
			if *pos >= len(s) {
				return nil, fmt.Errorf("sexp: unclosed")
			}
			if s[*pos] == ')' {
				*pos++
				return n, nil
			}
			c, err := parseNode(s, pos)
			if err != nil {
				return nil, err
			}
			n.list = append(n.list, c)
		}
	}
	st := *pos
	for *pos < len(s) && !strings.ContainsRune(" \t()", rune(s[*pos])) {
		*pos++
	}
	return &node{atom: s[st:*pos]}, nil
}

func known() map[int]*ga.Type {
	c := ga.NewCatalogue()
	m := map[int]*ga.Type{}
	for _, t := range c.All {
		t.Decls(m)
	}
	for _, t := range extraTypes(c) {
		t.Decls(m)
	}
	for _, t := range append(append(ga.StringerShapesR5(), ga.PtrKeyTypesR5(c)...), ga.GoStringerShapesR5(c)...) {
		t.Decls(m)
	}
	for _, fam := range ga.HAFamilies(c) {
		for _, t := range fam {
			t.Decls(m)
		}
	}
	return m
}

var basicBySexp = map[string]string{
	"bool": "bool", "f32": "float32", "f64": "float64", "c64": "complex64", "c128": "complex128", "string": "string",
	"(int 64 1)": "int", "(int 8 1)": "int8", "(int 16 1)": "int16", "(int 32 1)": "int32",
	"(int 64 0)": "uint64", "(int 8 0)": "uint8", "(int 16 0)": "uint16", "(int 32 0)": "uint32",
}

func (n *node) String() string {
	if !n.isL {
		return n.atom
	}
	var p []string
	for _, c := range n.list {
		p = append(p, c.String())
	}
	return "(" + strings.Join(p, " ") + ")"
}

func typeOf(n *node, kn map[int]*ga.Type) (*ga.Type, error) {
	if b, ok := basicBySexp[n.String()]; ok {
		return ga.B(b), nil
	}
	if !n.isL || len(n.list) == 0 {
		return nil, fmt.Errorf("type %s", n)
	}
	sub := func(i int) (*ga.Type, error) { return typeOf(n.list[i], kn) }
	switch n.list[0].atom {
	case "named", "ref":
		id, _ := strconv.Atoi(n.list[1].atom)
		d, ok := kn[id]
		if !ok {
			return nil, fmt.Errorf("unknown named type %d", id)
		}
		if n.list[0].atom == "ref" {
			return ga.Ref(d), nil
		}
		return d, nil
	case "ptr":
		e, err := sub(1)
		return ga.P(e), err
	case "slice":
		e, err := sub(1)
		return ga.Sl(e), err
	case "array":
		k, _ := strconv.Atoi(n.list[1].atom)
		e, err := sub(2)
		return ga.Ar(k, e), err
	case "map":
		k, err := sub(1)
		if err != nil {
			return nil, err
		}
		e, err := sub(2)
		return ga.M(k, e), err
	case "struct":
		var ts []*ga.Type
		var priv []bool
		for _, f := range n.list[1:] {
			t, err := typeOf(f.list[1], kn)
			if err != nil {
				return nil, err
			}
			ts = append(ts, t)
			priv = append(priv, f.list[0].atom == "1")
		}
		return ga.StP(priv, ts...), nil
	}
	return nil, fmt.Errorf("type %s", n)
}

func valOf(n *node) (*ga.Val, error) {
	if !n.isL {
		switch n.atom {
		case "nilp", "nils", "nilm":
			return &ga.Val{K: n.atom}, nil
		}
		return nil, fmt.Errorf("value %s", n.atom)
	}
	u := func(i int) uint64 { x, _ := strconv.ParseUint(n.list[i].atom, 10, 64); return x }
	vals := func(l []*node) ([]*ga.Val, error) {
		var out []*ga.Val
		for _, c := range l {
			v, err := valOf(c)
			if err != nil {
				return nil, err
			}
			out = append(out, v)
		}
		return out, nil
	}
	switch n.list[0].atom {
	case "b":
		return &ga.Val{K: "b", Bool: n.list[1].atom == "1"}, nil
	case "i":
		return &ga.Val{K: "i", Int: n.list[1].atom}, nil
	case "f":
		return &ga.Val{K: "f", Neg: n.list[1].atom == "1", Mag: u(2)}, nil
	case "c":
		return &ga.Val{K: "c", Neg: n.list[1].atom == "1", Mag: u(2), INeg: n.list[3].atom == "1", IMag: u(4)}, nil
	case "s":
		v := &ga.Val{K: "s"}
		for i := range n.list[1:] {
			v.Str = append(v.Str, byte(u(i+1)))
		}
		return v, nil
	case "p":
		t, err := valOf(n.list[2])
		return &ga.Val{K: "p", Loc: int(u(1)), Elems: []*ga.Val{t}}, err
	case "sl":
		es, err := vals(n.list[2].list)
		if err != nil {
			return nil, err
		}
		sp, err := vals(n.list[3].list)
		return &ga.Val{K: "sl", Loc: int(u(1)), Elems: es, Spare: sp}, err
	case "m":
		v := &ga.Val{K: "m", Loc: int(u(1))}
		for _, kv := range n.list[2].list {
			k, err := valOf(kv.list[0])
			if err != nil {
				return nil, err
			}
			x, err := valOf(kv.list[1])
			if err != nil {
				return nil, err
			}
			v.KVs = append(v.KVs, [2]*ga.Val{k, x})
		}
		return v, nil
	case "a", "st":
		es, err := vals(n.list[1:])
		return &ga.Val{K: n.list[0].atom, Elems: es}, err
	}
	return nil, fmt.Errorf("value %s", n)
}

func loadCorpus(dir string) ([]ccase, error) {
	if dir == "" {
		return nil, nil
	}
	files, _ := filepath.Glob(filepath.Join(dir, "*.txt"))
	sort.Strings(files)
	kn := known()
	var out []ccase
	for _, f := range files {
		data, err := os.ReadFile(f)
		if err != nil {
			return nil, err
		}
		for ln, line := range strings.Split(string(data), "\n") {
			line = strings.TrimSpace(line)
			if line == "" || line[0] == '#' {
				continue
			}
			parts := strings.SplitN(line, "\t", 2)
			if len(parts) != 2 {
				return nil, fmt.Errorf("%s:%d: expected TYPE<tab>VALUE", f, ln+1)
			}
			pos := 0
			tn, err := parseNode(parts[0], &pos)
			if err != nil {
				return nil, fmt.Errorf("%s:%d: %v", f, ln+1, err)
			}
			t, err := typeOf(tn, kn)
			if err != nil {
				return nil, fmt.Errorf("%s:%d: %v", f, ln+1, err)
			}
			pos = 0
			vn, err := parseNode(parts[1], &pos)
			if err != nil {
				return nil, fmt.Errorf("%s:%d: %v", f, ln+1, err)
			}
			v, err := valOf(vn)
			if err != nil {
				return nil, fmt.Errorf("%s:%d: %v", f, ln+1, err)
			}
			out = append(out, ccase{t, v})
		}
	}
	return out, nil
}
