// Package c06: derived GoString round-trips through the Go compiler.
//
// Stage 1: types with exported fields only live in an importable package p/lib; goderive
// generates deriveGoString for each; a driver calls it on the value pools and the returned
// TEXTS are collected.  (S) every text is parsed with go/parser into the statement language of
// coq/theories/GoStr and compared by the evaluator with the model's expression.
// Stage 2 (B): a second program is assembled from the texts (one function per value), compiled
// against p/lib and the imported packages, every expression is evaluated and serialised with
// the driver runtime's `ser`; the evaluator compares it with the original value (shipped
// across by the harness' own s-expression encoder) using C02's structural equality.
package c06

import (
	"fmt"
	"os"
	"path/filepath"
	"regexp"
	"sort"
	"strconv"
	"strings"

	"verifharness/internal/ga"
	"verifharness/internal/hx"
)

type tcase struct {
	idx  int
	t    *ga.Type
	vals []*ga.Val
	text []string // returned by deriveGoString, "" + panic flag
	bad  []string // stage-1 problem ("panic", "nofunc")
	sx   []string // parsed text
	rt   []string // stage-2 value
}

func Run(cfg hx.Config) (*hx.Meta, error) {
	meta := &hx.Meta{Property: "C06", Seed: cfg.Seed, Tier: cfg.Tier}
	r := hx.NewRand(cfg.Seed)
	cat := ga.NewCatalogue()
	var shapes []*ga.Type
	pool, nmut, ntwin := 16, 2, 8
	if cfg.Tier == "thorough" {
		shapes = cat.Shapes(r, 2, 1500)
		pool, nmut, ntwin = 32, 6, 20
	} else {
		// quick: every leaf and every depth-1 shape, a seeded slice of the depth-2 shapes, random deeper ones
		shapes = cat.Shapes(r, 1, 40)
		d2 := cat.Shapes(r, 2, 0)
		hx.Shuffle(r, d2)
		shapes = append(shapes, d2[:120]...)
	}
	shapes = ga.Dedup(append(extraTypes(cat), shapes...))
	// round 5: named types that carry String()/Error() methods (fmt calls them under every verb but %#v),
	// and maps whose key type owns pointers (several keys of one map may print the same text)
	shapes = ga.Dedup(append(shapes, append(ga.StringerShapesR5(), ga.PtrKeyTypesR5(cat)...)...))
	// ... and named structs whose GoString method IS the derived function (%#v calls it on keys and elements)
	shapes = ga.Dedup(append(shapes, ga.GoStringerShapesR5(cat)...))
	// round 4: generic instances and aliases; the members of a family are generated in one package
	family := map[string]int{}
	for fi, fam := range ga.HAFamilies(cat) {
		for _, t := range fam {
			if _, dup := family[t.Go(0)]; !dup {
				family[t.Go(0)] = fi
				shapes = append(shapes, t)
			}
		}
	}
	// outside the property's quantifier, kept as a demonstration that its guards are tight
	// (C06_gostring_unexported_refuted / _infinite_refuted replayed on the real code): local
	// structs with unexported fields - the model's evaluator and the Go compiler must both
	// reject the text; values with infinite floats are kept in the pools for the same reason.
	// (named structs only: an UNNAMED struct type with an unexported field written in the importing
	// package is a different type whose field belongs to that package - it compiles, to another type)
	demo := []*ga.Type{cat.SP, ga.P(cat.SP), ga.Sl(cat.SP), ga.M(ga.B("string"), ga.P(cat.SP))}
	isDemo := map[string]bool{}
	for _, t := range demo {
		isDemo[t.Go(0)] = true
	}
	shapes = ga.Dedup(append(shapes, demo...))
	var types []*ga.Type
	for _, t := range shapes {
		switch {
		case isDemo[t.Go(0)]:
			types = append(types, t)
			meta.Count("types/outside-guard-demo")
		case !exportedOnly(t, map[int]bool{}):
			meta.Count("types/skipped-unexported-fields")
		case bothExt(t):
			// two imported packages with the same NAME: no text can name both (see notes)
			meta.Count("types/skipped-two-packages-named-ext")
		default:
			types = append(types, t)
		}
	}
	corpus, err := loadCorpus(cfg.Corpus)
	if err != nil {
		return nil, err
	}
	for _, cc := range corpus {
		types = append(types, cc.t)
	}
	types = ga.Dedup(types)
	corpusVals := map[string][]*ga.Val{}
	for _, cc := range corpus {
		corpusVals[cc.t.Go(0)] = append(corpusVals[cc.t.Go(0)], cc.v)
	}

	// ---- probe: goderive must accept every exported-only type ----
	classes := make([]string, len(types))
	outs := make([]string, len(types))
	hx.Parallel(len(types), 16, func(i int) {
		p := &pkg{dir: filepath.Join(cfg.Work, "probe", fmt.Sprintf("t%04d", i)), types: []*ga.Type{types[i]}, idx: []int{i}}
		if err := p.write(); err != nil {
			classes[i], outs[i] = "harness-error", err.Error()
			return
		}
		g := p.generate(cfg.Goderive)
		if c := ga.ClassifyGoderive(g); c == "other-error" || c == "timeout" {
			g = p.generate(cfg.Goderive)
		}
		classes[i], outs[i] = ga.ClassifyGoderive(g), hx.Truncate(g.Out, 1500)
	})
	var sup strings.Builder
	var ok []*ga.Type
	var okIdx []int
	for i, t := range types {
		meta.GoderiveRuns++
		meta.Count("gen/" + classes[i])
		fmt.Fprintf(&sup, "(sup-gs %s %s)\n", t.Sexp(), classes[i])
		if classes[i] == "ok" {
			ok = append(ok, t)
			okIdx = append(okIdx, i)
		} else {
			meta.Notes = append(meta.Notes, "goderive "+classes[i]+" for "+t.Go(0)+": "+hx.Truncate(outs[i], 300))
		}
	}
	supf := filepath.Join(cfg.Out, "c06-support.obs")
	if err := os.WriteFile(supf, []byte(sup.String()), 0o644); err != nil {
		return nil, err
	}
	meta.ObsFiles = append(meta.ObsFiles, supf)

	// ---- batches ----
	var plainT []*ga.Type
	var plainI []int
	famT, famI := map[int][]*ga.Type{}, map[int][]int{}
	for i, t := range ok {
		if fi, isFam := family[t.Go(0)]; isFam {
			famT[fi], famI[fi] = append(famT[fi], t), append(famI[fi], okIdx[i])
		} else {
			plainT, plainI = append(plainT, t), append(plainI, okIdx[i])
		}
	}
	bts, bis := ga.Batches(plainT, plainI, 40)
	for fi := 0; fi < len(famT)+8; fi++ {
		if len(famT[fi]) > 0 {
			bts, bis = append(bts, famT[fi]), append(bis, famI[fi])
			meta.Count(fmt.Sprintf("family-batch/%d types=%d", fi, len(famT[fi])))
		}
	}
	nb := len(bts)
	hs := ga.HAStrings()
	obsFiles := make([]string, nb)
	errs := make([]error, nb)
	rs := make([]*hx.Rand, nb)
	for b := range rs {
		rs[b] = r.Fork(uint64(b))
	}
	hx.Parallel(nb, 6, func(b int) {
		p := &pkg{dir: filepath.Join(cfg.Work, fmt.Sprintf("batch%02d", b)), types: bts[b], idx: bis[b]}
		if errs[b] = p.write(); errs[b] != nil {
			return
		}
		g := p.generate(cfg.Goderive)
		if g.Exit != 0 {
			meta.AddDirect(hx.Direct{Class: "c06-batch-generate-failed", What: "goderive fails on a batch of types that it accepts one by one", Cmd: "goderive ./lib", Output: hx.Truncate(g.Out, 3000)})
			return
		}
		if bd := hx.GoBuild(p.dir, filepath.Join(p.dir, "drv"), "drv", "./cmd/drv"); bd.Exit != 0 {
			meta.AddDirect(hx.Direct{Class: "c06-batch-build-failed", What: "the generated deriveGoString functions do not compile", Cmd: "go build -tags drv ./cmd/drv", Output: hx.Truncate(bd.Out, 3000),
				Files: map[string]string{"lib/decls.go": p.files["lib/decls.go"], "lib/calls.go": p.files["lib/calls.go"]}})
			return
		}
		// stage 1: texts
		gen := ga.NewGen(rs[b], pool)
		var cases strings.Builder
		tcs := make([]*tcase, len(p.types))
		for i, t := range p.types {
			tc := &tcase{idx: p.idx[i], t: t}
			var pv []*ga.Val
			if ga.HasPtrKeyR5(t) {
				// round 5: maps with pointer-owning keys also get several keys with EQUAL targets (different addresses)
				pv = ga.PtrKeyPoolR5(gen, t, 3, ntwin)
				for _, v := range pv {
					if ga.HasTwinKeysR5(v) {
						meta.CountSafe("values/map-with-keys-equal-by-content")
					}
				}
			} else {
				pv = gen.Pool(t, map[int]*ga.Type{}, 3)
			}
			vals := append(append([]*ga.Val{}, corpusVals[t.Go(0)]...), pv...)
			// round 4: copies of pool values whose strings (at every position that is not a map key) are
			// replaced by strings that mix line ends, backquotes, carriage returns, invalid UTF-8, NUL, BOM, …
			if nv := len(vals); nv > 0 {
				want, tries := nmut, 0
				for want > 0 && tries < 4*nmut {
					tries++
					src := vals[rs[b].Intn(nv)]
					if m, n := ga.MutateStrings(src, gen.Fresh, func() string { return hs[rs[b].Intn(len(hs))] }); n > 0 {
						vals = append(vals, m)
						want--
						meta.CountSafe("values/strings-mutated")
					}
				}
			}
			for _, v := range vals {
				if !finite(t, v, map[int]*ga.Type{}) {
					// outside the quantifier ("finite floats"): the text contains +Inf; model and compiler must both reject it
					meta.CountSafe("values/non-finite-float-outside-guard")
				}
				tc.vals = append(tc.vals, v)
				fmt.Fprintf(&cases, "gs %d %s\n", tc.idx, v.Sexp())
			}
			meta.CountSafe(fmt.Sprintf("pool-size/%02d", min(len(tc.vals), 40)))
			tcs[i] = tc
		}
		cf := filepath.Join(p.dir, "cases.txt")
		if errs[b] = os.WriteFile(cf, []byte(cases.String()), 0o644); errs[b] != nil {
			return
		}
		res := hx.Run(p.dir, 600e9, 8000000, nil, filepath.Join(p.dir, "drv"), cf)
		if res.Exit != 0 {
			meta.AddDirect(hx.Direct{Class: "c06-driver-failed", What: "stage-1 driver crashed", Cmd: "./drv cases.txt", Output: hx.Truncate(res.Out, 3000)})
			return
		}
		lines := strings.Split(strings.TrimRight(res.Stdout, "\n"), "\n")
		li := 0
		cv := newConv(p.decls)
		for _, tc := range tcs {
			for range tc.vals {
				if li >= len(lines) {
					errs[b] = fmt.Errorf("stage 1: driver printed %d lines, expected more", len(lines))
					return
				}
				text, bad := textOf(lines[li])
				li++
				tc.text = append(tc.text, text)
				tc.bad = append(tc.bad, bad)
				sx := "unparsed"
				if bad == "" {
					s, err := cv.Text(text)
					if err == nil {
						sx = s
					} else {
						meta.CountSafe("text/unparsed")
						meta.Sample("UNPARSED (" + err.Error() + "): " + hx.Truncate(text, 300))
					}
				}
				tc.sx = append(tc.sx, sx)
				tc.rt = append(tc.rt, "missing")
			}
		}
		// stage 2: compile and evaluate the texts
		stage2(p, tcs, meta)
		var obs strings.Builder
		for _, tc := range tcs {
			// a map whose key type owns pointers is outside Go/Val.v's has_type (keys compared by content):
			// those types are judged with the typing and the structural equality of GoStr/PtrKeys.v
			kind := "gs"
			if ga.HasPtrKeyR5(tc.t) {
				kind = "gsk"
			}
			for j, v := range tc.vals {
				fmt.Fprintf(&obs, "(%s %s %s %s %s)\n", kind, tc.t.Sexp(), v.Sexp(), tc.sx[j], tc.rt[j])
				if j == 1 {
					meta.Sample(hx.Truncate(tc.t.Go(0)+" :: "+strings.ReplaceAll(tc.text[j], "\n", "; "), 400))
				}
				meta.CountSafe("stage2/" + rtClass(tc.rt[j]))
			}
		}
		obsFiles[b] = filepath.Join(cfg.Out, fmt.Sprintf("c06-batch%02d.obs", b))
		errs[b] = os.WriteFile(obsFiles[b], []byte(obs.String()), 0o644)
	})
	for b := range obsFiles {
		if errs[b] != nil {
			return nil, errs[b]
		}
		if obsFiles[b] != "" {
			meta.ObsFiles = append(meta.ObsFiles, obsFiles[b])
			meta.GoderiveRuns++
			meta.Packages++
		}
	}
	meta.Count(fmt.Sprintf("types=%d accepted=%d corpus=%d", len(types), len(ok), len(corpus)))
	sameNameDemo(cfg, meta)
	return meta, nil
}

func rtClass(rt string) string {
	switch rt {
	case "missing", "nocompile", "panic":
		return rt
	}
	return "evaluated"
}

// textOf extracts the string from a driver line `(gs TY VAL (ret (s b ...)))`.
func textOf(line string) (string, string) {
	line = strings.TrimSuffix(line, ")")
	switch {
	case strings.HasSuffix(line, " panic"):
		return "", "panic"
	case strings.HasSuffix(line, " nofunc"):
		return "", "nofunc"
	}
	i := strings.LastIndex(line, "(ret (s")
	if i < 0 {
		return "", "bad-line"
	}
	body := strings.TrimSuffix(strings.TrimSpace(line[i+len("(ret (s"):]), "))")
	var b []byte
	for _, f := range strings.Fields(body) {
		n, err := strconv.Atoi(f)
		if err != nil {
			return "", "bad-line"
		}
		b = append(b, byte(n))
	}
	return string(b), ""
}

// ---------- guard (mirrors GoStr/Match.v: exp_only, finite) ----------

func exportedOnly(t *ga.Type, seen map[int]bool) bool {
	switch t.K {
	case ga.KBasic, ga.KRef:
		return true
	case ga.KNamed:
		if seen[t.ID] {
			return true
		}
		seen[t.ID] = true
		return exportedOnly(t.Elem, seen)
	case ga.KPtr, ga.KSlice, ga.KArray:
		return exportedOnly(t.Elem, seen)
	case ga.KMap:
		return exportedOnly(t.Key, seen) && exportedOnly(t.Elem, seen)
	case ga.KStruct:
		for _, f := range t.Fields {
			if f.Priv || !exportedOnly(f.T, seen) {
				return false
			}
		}
		return true
	}
	return false
}

func bothExt(t *ga.Type) bool {
	decls := map[int]*ga.Type{}
	t.Decls(decls)
	used := map[int]bool{}
	t.UsesExt(used)
	for _, d := range decls {
		if d.Ext != 0 {
			used[d.Ext] = true
		} else {
			d.Elem.UsesExt(used)
		}
	}
	return used[1] && used[2]
}

const f32Inf, f64Inf = 0x7F800000, 0x7FF0000000000000

func finite(t *ga.Type, v *ga.Val, env map[int]*ga.Type) bool {
	switch t.K {
	case ga.KNamed:
		env2 := map[int]*ga.Type{}
		for k, x := range env {
			env2[k] = x
		}
		env2[t.ID] = t
		return finite(t.Elem, v, env2)
	case ga.KRef:
		return finite(env[t.ID].Elem, v, env)
	case ga.KBasic:
		lim := uint64(f64Inf)
		if t.Basic == "float32" || t.Basic == "complex64" {
			lim = f32Inf
		}
		switch v.K {
		case "f":
			return v.Mag < lim
		case "c":
			return v.Mag < lim && v.IMag < lim
		}
		return true
	case ga.KPtr:
		return v.K != "p" || finite(t.Elem, v.Elems[0], env)
	case ga.KSlice, ga.KArray:
		for _, e := range v.Elems {
			if !finite(t.Elem, e, env) {
				return false
			}
		}
		return true
	case ga.KMap:
		for _, kv := range v.KVs {
			if !finite(t.Key, kv[0], env) || !finite(t.Elem, kv[1], env) {
				return false
			}
		}
		return true
	case ga.KStruct:
		for i, f := range t.Fields {
			if !finite(f.T, v.Elems[i], env) {
				return false
			}
		}
		return true
	}
	return true
}

// extraTypes: shapes the shared catalogue does not have (named containers of non-basic
// elements, named pointers to structs, a struct of a second imported package, pointer chains).
func extraTypes(c *ga.Catalogue) []*ga.Type {
	e4 := ga.Named(33, "E4", 2, ga.St(ga.B("string"), ga.Sl(ga.B("int"))))
	nss := ga.Named(40, "NSS", 0, ga.Sl(c.S0))
	nps := ga.Named(41, "NPS", 0, ga.P(c.S0))
	nms := ga.Named(42, "NMS", 0, ga.M(c.S0, ga.P(c.S0)))
	nas := ga.Named(43, "NAS", 0, ga.Ar(2, c.NInt))
	nf32 := ga.Named(44, "NF32", 0, ga.B("float32"))
	big := ga.Named(45, "Big", 0, ga.St(
		ga.P(ga.B("int")), ga.Sl(ga.B("string")), ga.M(ga.B("string"), ga.B("int")), c.NInt, ga.P(c.NInt), ga.Sl(c.NInt),
		ga.Ar(2, c.NStr), ga.M(c.NStr, c.S0), ga.M(c.S0, ga.P(c.S0)), c.NSl, c.NMap, c.NArr, c.NPtr, c.E3,
		ga.Sl(ga.B("uint8")), ga.P(ga.P(ga.B("int"))), ga.P(ga.Sl(ga.B("int"))), ga.M(ga.B("float64"), ga.Sl(ga.B("uint8"))),
		ga.St(ga.B("int"), ga.B("string")), c.SE, ga.P(c.SE), ga.Ar(0, ga.B("int")), ga.B("float32"), ga.B("complex64"),
		c.NU8, ga.P(ga.B("string")), ga.M(ga.Ar(2, ga.B("int")), ga.B("float64")), ga.Sl(ga.P(ga.B("int"))), nps, nss))
	return []*ga.Type{
		e4, ga.P(e4), ga.Sl(e4), nss, nps, nms, nas, nf32, big, ga.P(big),
		ga.P(ga.P(ga.P(ga.B("int")))), ga.P(ga.P(c.S0)), ga.P(c.NPtr), ga.P(c.NSl), ga.P(c.NMap), ga.P(c.NArr),
		ga.M(c.NStr, ga.Sl(c.NSl)), ga.M(ga.B("float64"), ga.P(ga.B("float64"))), ga.M(ga.B("bool"), c.S0),
		ga.M(ga.B("uint8"), ga.Sl(ga.B("uint8"))), ga.M(ga.B("complex128"), c.NInt), ga.M(ga.St(ga.B("float64"), ga.B("string")), ga.B("string")),
		ga.Sl(ga.Sl(ga.B("uint8"))), ga.Sl(ga.M(ga.B("string"), ga.B("float32"))), ga.Ar(2, ga.Ar(2, ga.B("complex64"))),
		ga.St(ga.B("float32"), ga.B("complex64"), ga.B("uint64"), ga.B("int8"), ga.B("bool")),
		ga.Sl(ga.B("float32")), ga.Sl(ga.B("complex64")), ga.Sl(ga.B("bool")), ga.Sl(ga.B("uint64")), ga.Ar(2, ga.B("float64")),
		ga.M(ga.B("int"), ga.B("float32")), ga.M(ga.B("string"), ga.B("complex128")), ga.M(ga.B("float64"), ga.B("bool")),
		ga.P(ga.B("float32")), ga.P(ga.B("complex128")), ga.P(ga.B("uint8")), ga.P(ga.B("bool")),
		ga.M(ga.B("string"), ga.P(ga.B("int"))), ga.M(ga.B("string"), c.S0), ga.M(ga.B("string"), ga.Sl(ga.B("string"))),
		ga.M(ga.B("complex128"), ga.P(ga.B("string"))), ga.M(ga.B("int"), c.NStr), ga.M(ga.B("uint8"), c.Rec),
		ga.M(c.NStr, ga.B("string")), ga.M(c.NF64, ga.B("float64")), ga.M(ga.Ar(2, ga.B("string")), ga.Sl(ga.B("string"))),
	}
}

// ---------- scratch module: p/lib (types + derive calls), p/cmd/drv (driver) ----------

type pkg struct {
	dir   string
	types []*ga.Type
	idx   []int
	decls map[int]*ga.Type
	files map[string]string
}

var extAlias = map[int]string{1: "ext", 2: "ext2"} // as ga.Type.Go spells them

func importBlock(exts map[int]bool, extra ...string) string {
	var ids []int
	for e := range exts {
		ids = append(ids, e)
	}
	sort.Ints(ids)
	if len(ids) == 0 && len(extra) == 0 {
		return ""
	}
	var b strings.Builder
	b.WriteString("import (\n")
	for _, x := range extra {
		b.WriteString("\t" + x + "\n")
	}
	for _, e := range ids {
		fmt.Fprintf(&b, "\t%s %q\n", extAlias[e], ga.ExtPaths[e])
	}
	b.WriteString(")\n\n")
	return b.String()
}

func (p *pkg) write() error {
	if err := hx.Module(p.dir); err != nil {
		return err
	}
	p.decls = map[int]*ga.Type{}
	for _, t := range p.types {
		t.Decls(p.decls)
	}
	declExt, callExt := map[int]bool{}, map[int]bool{}
	for _, d := range p.decls {
		if d.Ext == 0 {
			d.Elem.UsesExt(declExt)
		}
	}
	for _, t := range p.types {
		t.UsesExt(callExt)
	}
	files := map[string]string{}
	declSrc, declImports, declFiles := ga.DeclSourceHA(p.decls, 0, "p/lib")
	files["lib/decls.go"] = "package lib\n\n" + importBlock(declExt, declImports...) + declSrc
	for name, src := range declFiles {
		files["lib/"+name] = src
	}
	var calls, regs, tys strings.Builder
	calls.WriteString("package lib\n\n" + importBlock(callExt))
	regs.WriteString("//go:build drv\n\npackage main\n\nimport \"p/lib\"\n\nfunc init() {\n")
	for i, t := range p.types {
		idx := p.idx[i]
		fmt.Fprintf(&calls, "func Gs_%d(a %s) string { return deriveGoString_%d(a) }\n", idx, t.Go(0), idx)
		fmt.Fprintf(&regs, "\treg(\"gs\", %d, lib.Gs_%d)\n", idx, idx)
		fmt.Fprintf(&tys, "%d %s\n", idx, t.Sexp())
	}
	regs.WriteString("}\n")
	files["lib/calls.go"] = calls.String()
	files["cmd/drv/reg.go"] = regs.String()
	files["cmd/drv/rt.go"] = ga.RTSource
	files["types.txt"] = tys.String()
	for _, d := range p.decls {
		if d.Ext != 0 {
			ds := map[int]*ga.Type{}
			for id, x := range p.decls {
				if x.Ext == d.Ext {
					ds[id] = x
				}
			}
			files[strings.TrimPrefix(ga.ExtPaths[d.Ext], "p/")+"/ext.go"] = "package ext\n\n" + ga.DeclSource(ds, d.Ext)
		}
	}
	p.files = files
	return hx.WriteFiles(p.dir, files)
}

func (p *pkg) generate(goderive string) hx.RunResult {
	return hx.Goderive(goderive, p.dir, "./lib")
}

// ---------- stage 2 ----------

var errLine = regexp.MustCompile(`(?m)^cmd/s2\w*/vals\.go:(\d+):`)

type s2item struct {
	tc   *tcase
	j    int
	from int // first line of the function in vals.go
	to   int
}

// stage2 assembles one program per imported package named ext (a Go file can bind the name
// `ext` to one package only) from the texts of the batch, builds it and evaluates every text.
// Texts the compiler rejects are marked `nocompile` and the rest is built again.
func stage2(p *pkg, tcs []*tcase, meta *hx.Meta) {
	groups := map[int][]s2item{}
	for _, tc := range tcs {
		used := map[int]bool{}
		tc.t.UsesExt(used)
		ds := map[int]*ga.Type{}
		tc.t.Decls(ds)
		for _, d := range ds {
			if d.Ext != 0 {
				used[d.Ext] = true
			} else {
				d.Elem.UsesExt(used)
			}
		}
		g := 0
		if used[2] {
			g = 2
		} else if used[1] {
			g = 1
		}
		for j := range tc.vals {
			if tc.bad[j] != "" {
				tc.rt[j] = "panic"
				continue
			}
			groups[g] = append(groups[g], s2item{tc: tc, j: j})
		}
	}
	// the programs that import nothing named ext and those that import x1 can share one file
	if len(groups[0]) > 0 && len(groups[1]) > 0 {
		groups[1] = append(groups[1], groups[0]...)
		delete(groups, 0)
	}
	for g, items := range groups {
		name := fmt.Sprintf("s2g%d", g)
		for attempt := 0; attempt < 4 && len(items) > 0; attempt++ {
			src := s2source(p, g, items)
			dir := filepath.Join(p.dir, "cmd", name)
			if err := hx.WriteFiles(dir, map[string]string{"vals.go": src, "rt.go": strings.Replace(ga.RTSource, "func main() {", "func rtMain() {", 1)}); err != nil {
				meta.AddDirect(hx.Direct{Class: "c06-harness-error", What: err.Error()})
				return
			}
			bd := hx.GoBuild(p.dir, filepath.Join(p.dir, name), "drv", "-gcflags=-e", "./cmd/"+name)
			if bd.Exit == 0 {
				res := hx.Run(p.dir, 600e9, 8000000, nil, filepath.Join(p.dir, name))
				if res.Exit != 0 {
					meta.AddDirect(hx.Direct{Class: "c06-stage2-crashed", What: "stage-2 program crashed", Cmd: "./" + name, Output: hx.Truncate(res.Out, 3000)})
					return
				}
				lines := strings.Split(strings.TrimRight(res.Stdout, "\n"), "\n")
				for i, it := range items {
					if i < len(lines) {
						f := strings.SplitN(lines[i], " ", 2)
						if len(f) == 2 && f[0] == strconv.Itoa(i) {
							it.tc.rt[it.j] = f[1]
						}
					}
				}
				break
			}
			// map the compiler's complaints to texts
			badLines := map[int]bool{}
			for _, m := range errLine.FindAllStringSubmatch(bd.Out, -1) {
				n, _ := strconv.Atoi(m[1])
				badLines[n] = true
			}
			var rest []s2item
			nbad := 0
			for _, it := range items {
				hit := false
				for l := range badLines {
					if l >= it.from && l <= it.to {
						hit = true
					}
				}
				if hit {
					it.tc.rt[it.j] = "nocompile"
					nbad++
					meta.Sample("NOCOMPILE " + it.tc.t.Go(0) + " :: " + hx.Truncate(strings.ReplaceAll(it.tc.text[it.j], "\n", "; "), 300) + " :: " + hx.Truncate(firstErr(bd.Out, it.from, it.to), 200))
				} else {
					rest = append(rest, it)
				}
			}
			if nbad == 0 {
				meta.AddDirect(hx.Direct{Class: "c06-stage2-build-failed", What: "the stage-2 program does not build and the errors cannot be attributed to a text", Cmd: "go build ./cmd/" + name, Output: hx.Truncate(bd.Out, 3000)})
				return
			}
			items = rest
		}
	}
}

func firstErr(out string, from, to int) string {
	for _, l := range strings.Split(out, "\n") {
		if m := errLine.FindStringSubmatch(l); m != nil {
			n, _ := strconv.Atoi(m[1])
			if n >= from && n <= to {
				return l
			}
		}
	}
	return ""
}

func s2source(p *pkg, g int, items []s2item) string {
	var b strings.Builder
	b.WriteString("//go:build drv\n\npackage main\n\nimport (\n\t\"fmt\"\n\t\"reflect\"\n\t\"p/lib\"\n")
	if g != 0 {
		// the importing package uses the package's own NAME (the text says ext.T)
		fmt.Fprintf(&b, "\t%q\n", ga.ExtPaths[g])
	}
	b.WriteString(")\n\n")
	fmt.Fprintf(&b, "var _ = lib.Gs_%d\n", p.idx[0])
	if g != 0 {
		for _, d := range p.decls {
			if d.Ext == g {
				fmt.Fprintf(&b, "var _ *ext.%s\n", d.Name)
				break
			}
		}
	}
	b.WriteString("\nvar fs = []func() interface{}{\n")
	for i := range items {
		fmt.Fprintf(&b, "\tf%d,\n", i)
	}
	b.WriteString("}\n\n")
	b.WriteString("func call(f func() interface{}) (s string) {\n\tdefer func() {\n\t\tif r := recover(); r != nil {\n\t\t\ts = \"panic\"\n\t\t}\n\t}()\n\treturn serS(reflect.ValueOf(f()), &labeler{})\n}\n\n")
	b.WriteString("func main() {\n\tfor i, f := range fs {\n\t\tfmt.Printf(\"%d %s\\n\", i, call(f))\n\t}\n}\n\n")
	line := strings.Count(b.String(), "\n") + 1
	for i := range items {
		it := &items[i]
		text := it.tc.text[it.j]
		src := fmt.Sprintf("func f%d() interface{} {\n\treturn %s\n}\n", i, strings.TrimRight(text, "\n"))
		it.from = line
		line += strings.Count(src, "\n")
		it.to = line - 1
		b.WriteString(src)
	}
	return b.String()
}

// sameNameDemo records (as a count, not as a violation) what happens for a type built from two
// imported packages that are both NAMED ext: the text says ext.E3 and ext.E4 - package names, as
// fmt's %#v prints them - so no single file can compile it whatever aliases it chooses.  This is
// outside the property ("a package importing the type's package" under its name); see notes.
func sameNameDemo(cfg hx.Config, meta *hx.Meta) {
	cat := ga.NewCatalogue()
	e4 := ga.Named(33, "E4", 2, ga.St(ga.B("string"), ga.Sl(ga.B("int"))))
	t := ga.St(cat.E3, e4)
	p := &pkg{dir: filepath.Join(cfg.Work, "same-name-demo"), types: []*ga.Type{t}, idx: []int{0}}
	note := "types mentioning two imported packages with the same name (p/x1/ext, p/x2/ext) are skipped: the text uses package NAMES (as fmt's %#v does), so no text can name both; see notes/C06.md"
	defer func() { meta.Notes = append(meta.Notes, note) }()
	if err := p.write(); err != nil {
		return
	}
	if g := p.generate(cfg.Goderive); g.Exit != 0 {
		return
	}
	if bd := hx.GoBuild(p.dir, filepath.Join(p.dir, "drv"), "drv", "./cmd/drv"); bd.Exit != 0 {
		return
	}
	cf := filepath.Join(p.dir, "cases.txt")
	if os.WriteFile(cf, []byte("gs 0 (st (st (i 1) (b 1)) (st (s 97) nils))\n"), 0o644) != nil {
		return
	}
	res := hx.Run(p.dir, 60e9, 8000000, nil, filepath.Join(p.dir, "drv"), cf)
	text, bad := textOf(strings.TrimSpace(res.Stdout))
	if res.Exit != 0 || bad != "" {
		return
	}
	if strings.Contains(text, "ext.E3{}") && strings.Contains(text, "ext.E4{}") {
		meta.Count("demo/two-packages-named-ext: the text names both `ext`")
		note += " [demonstrated in this run: " + hx.Truncate(strings.ReplaceAll(text, "\n", "; "), 200) + "]"
	} else {
		meta.Count("demo/two-packages-named-ext: text does NOT name both ext (behaviour changed?)")
	}
}
