// Package c06: correspondence harness of C06 (stub: replaced when C06 is built).
package c06

import (
	"fmt"

	"verifharness/internal/hx"
)

func Run(cfg hx.Config) (*hx.Meta, error) {
	return nil, fmt.Errorf("C06: harness not built yet")
}
