package c20

// driverSrc is compiled together with calls.go (callsSrc) and the derived.gen.go of this run.
// One line per case:
//
//	GOMAXPROCS|rank of each function (completion order forced by sleeps)|shape|class|(fs ...)
//
// shape selects the deriveDo instance (int = do2/do3/do4 on int results, otherwise one of the typed
// instances of callsSrc); class is copied into the observation ("-" = the original `(run …)` line).
// For the typed instances the natural number rv of the model is encoded as a value of the result
// type (0 = the zero value: nil interface / nil pointer / nil slice / nil map / nil func / nil
// channel / "" / S{}; 1 = the second "empty" value where the type has one: a typed nil pointer
// inside the interface, an empty non-nil slice; k = a value carrying k) and decoded again after the
// call, so that "each function's value in its position" is checked for every kind of result type.
// The source must behave the same under the pre-1.22 loop variable semantics: it is also compiled in
// a module whose go.mod says go 1.21 / go 1.18.
const driverSrc = `package main

import (
	"bufio"
	"fmt"
	"context"
	"errors"
	"os"
	"reflect"
	"runtime"
	"strconv"
	"strings"
	"sync/atomic"
	"time"
)

type dErr struct{ i int }

func (e *dErr) Error() string { return "error of function " + strconv.Itoa(e.i) }

type vErr struct{ i int }

func (e vErr) Error() string { return "value error of function " + strconv.Itoa(e.i) }

// ---- error values of other dynamic types (hardening round 5) ----
// Which error Do returns, and that it returns at all, must not depend on what kind of value the
// error is. Validation / multi errors are commonly slices, maps or structs with a slice field:
// values of these types are NOT comparable (== on two interface values that both hold one panics at
// run time); a func type is not comparable either; boxErr is a comparable struct type whose
// comparison panics when the error inside is not comparable. The "tagged" kinds carry the tag of
// the model (re) so that the driver can tell which function's error came back without ==.

type tagged interface{ errTag() int }

type fieldErrs []string

func (e fieldErrs) Error() string { return "invalid fields: " + strings.Join(e, ", ") }
func (e fieldErrs) errTag() int   { k, _ := strconv.Atoi(e[0]); return k }

type mapErr map[string]int

func (e mapErr) Error() string { return "errors by key (" + strconv.Itoa(len(e)) + ")" }
func (e mapErr) errTag() int   { return e["tag"] }

type multiErr struct {
	t    int
	errs []error
}

func (e multiErr) Error() string { return strconv.Itoa(len(e.errs)) + " errors occurred" }
func (e multiErr) errTag() int   { return e.t }

type boxErr struct{ inner error }

func (e boxErr) Error() string { return "boxed: " + e.inner.Error() }
func (e boxErr) Unwrap() error { return e.inner }
func (e boxErr) errTag() int   { return e.inner.(tagged).errTag() }

type funcErr func() string

func (e funcErr) Error() string { return "lazy error " + e() }
func (e funcErr) errTag() int   { k, _ := strconv.Atoi(e()); return k }

// npErr: a pointer error type whose methods accept the nil pointer; (*npErr)(nil) stored in an
// error is a NON-nil error (the classic typed nil): the function failed and Do must report it.
type npErr struct{ msg string }

func (e *npErr) Error() string {
	if e == nil {
		return "nil *npErr"
	}
	return e.msg
}

var errSentinel = errors.New("shared sentinel error")

// mkErr builds the error with tag t (t = re of the model, 1..) for function i under the error
// policy named in the class of the case ("errs-…"; none = the original four comparable kinds).
func mkErr(policy string, i, t int, pick int) error {
	kind := policy
	if policy == "errs-uncmp-mixed" {
		kind = []string{"errs-slice", "errs-map", "errs-multi", "errs-boxed", "errs-func"}[pick%5]
	}
	switch kind {
	case "errs-slice", "errs-same-slice":
		return fieldErrs{strconv.Itoa(t), "name", "age"}
	case "errs-map":
		return mapErr{"tag": t, "other": 1}
	case "errs-multi":
		return multiErr{t, []error{errors.New("a"), errors.New("b")}}
	case "errs-boxed":
		return boxErr{fieldErrs{strconv.Itoa(t)}}
	case "errs-func":
		return funcErr(func() string { return strconv.Itoa(t) })
	case "errs-sentinel":
		return errSentinel
	case "errs-nilptr":
		return (*npErr)(nil)
	}
	// errors of different dynamic types, one of them wrapping context.Canceled
	switch i % 4 {
	case 0:
		return &dErr{i}
	case 1:
		return errors.New("plain error of function " + strconv.Itoa(i))
	case 2:
		return fmt.Errorf("function %d gave up: %w", i, context.Canceled)
	}
	return vErr{i}
}

// sameErr: is a the error value b? Never compares two values of a type that is not comparable.
func sameErr(a, b error) bool {
	if reflect.TypeOf(a) != reflect.TypeOf(b) {
		return false
	}
	if ta, ok := a.(tagged); ok {
		return ta.errTag() == b.(tagged).errTag()
	}
	return a == b
}

type op struct {
	send bool
	c    int
}

type fun struct {
	ops []op
	rv  int
	re  int
}

// parseFs reads (fs (f (OPS) rv re) ...)
func parseFs(s string) []fun {
	toks := strings.Fields(strings.NewReplacer("(", " ( ", ")", " ) ").Replace(s))
	pos := 0
	next := func() string { t := toks[pos]; pos++; return t }
	expect := func(t string) {
		if g := next(); g != t {
			panic("parse: expected " + t + " got " + g)
		}
	}
	var fs []fun
	expect("(")
	expect("fs")
	for toks[pos] == "(" {
		expect("(")
		expect("f")
		expect("(")
		var f fun
		for toks[pos] == "(" {
			expect("(")
			k := next()
			c, _ := strconv.Atoi(next())
			expect(")")
			f.ops = append(f.ops, op{k == "s", c})
		}
		expect(")")
		f.rv, _ = strconv.Atoi(next())
		f.re, _ = strconv.Atoi(next())
		expect(")")
		fs = append(fs, f)
	}
	expect(")")
	return fs
}

type result struct {
	vals     []int
	err      error
	panicked bool
}

const undecodable = 999999

// Sq implements the interface Shape of calls.go
type Sq struct{ Side int }

func (s *Sq) Area() int {
	if s == nil {
		return 0
	}
	return s.Side * s.Side
}

// ---- encodings of a natural number as a value of each result type ----

func encStr(k int) string {
	if k == 0 {
		return ""
	}
	return strconv.Itoa(k)
}
func decStr(s string) int {
	if s == "" {
		return 0
	}
	if k, err := strconv.Atoi(s); err == nil && k > 0 {
		return k
	}
	return undecodable
}
func encPtr(k int) *S {
	if k == 0 {
		return nil
	}
	return &S{k}
}
func decPtr(p *S) int {
	if p == nil {
		return 0
	}
	return p.A
}
func encSlice(k int) []int {
	switch k {
	case 0:
		return nil
	case 1:
		return []int{}
	}
	return []int{k}
}
func decSlice(l []int) int {
	switch {
	case l == nil:
		return 0
	case len(l) == 0:
		return 1
	case len(l) == 1:
		return l[0]
	}
	return undecodable
}
func encShape(k int) Shape {
	switch k {
	case 0:
		return nil
	case 1:
		return (*Sq)(nil) // a non-nil interface value holding a nil pointer
	}
	return &Sq{k}
}
func decShape(v Shape) int {
	if v == nil {
		return 0
	}
	p, ok := v.(*Sq)
	if !ok {
		return undecodable
	}
	if p == nil {
		return 1
	}
	return p.Side
}
func encAny(k int) interface{} {
	switch k {
	case 0:
		return nil
	case 1:
		return (*Sq)(nil)
	}
	return k
}
func decAny(v interface{}) int {
	switch x := v.(type) {
	case nil:
		return 0
	case int:
		return x
	case *Sq:
		if x == nil {
			return 1
		}
	}
	return undecodable
}
func encErrVal(k int) error {
	if k == 0 {
		return nil
	}
	return &dErr{k}
}
func decErrVal(e error) int {
	if e == nil {
		return 0
	}
	if d, ok := e.(*dErr); ok && d != nil {
		return d.i
	}
	return undecodable
}
func encMap(k int) map[string]int {
	switch k {
	case 0:
		return nil
	case 1:
		return map[string]int{}
	}
	return map[string]int{"k": k}
}
func decMap(m map[string]int) int {
	switch {
	case m == nil:
		return 0
	case len(m) == 0:
		return 1
	case len(m) == 1 && m["k"] != 0:
		return m["k"]
	}
	return undecodable
}
func encFunc(k int) func() int {
	if k == 0 {
		return nil
	}
	return func() int { return k }
}
func decFunc(f func() int) int {
	if f == nil {
		return 0
	}
	return f()
}
func encChan(k int) chan int {
	if k == 0 {
		return nil
	}
	c := make(chan int, 1)
	c <- k
	return c
}
func decChan(c chan int) int {
	if c == nil {
		return 0
	}
	select {
	case k := <-c:
		return k
	default:
	}
	return undecodable
}

func call(shape string, fns []func() (int, error)) result {
	f0, f1 := fns[0], fns[1]
	var f2, f3 func() (int, error)
	if len(fns) > 2 {
		f2 = fns[2]
	}
	if len(fns) > 3 {
		f3 = fns[3]
	}
	switch shape {
	case "int":
		switch len(fns) {
		case 2:
			a, b, e := do2(f0, f1)
			return result{vals: []int{a, b}, err: e}
		case 3:
			a, b, c, e := do3(f0, f1, f2)
			return result{vals: []int{a, b, c}, err: e}
		case 4:
			a, b, c, d, e := do4(f0, f1, f2, f3)
			return result{vals: []int{a, b, c, d}, err: e}
		}
	case "mix": // string, *S, []int
		a, b, c, e := doMix(
			func() (string, error) { v, e := f0(); return encStr(v), e },
			func() (*S, error) { v, e := f1(); return encPtr(v), e },
			func() ([]int, error) { v, e := f2(); return encSlice(v), e })
		return result{vals: []int{decStr(a), decPtr(b), decSlice(c)}, err: e}
	case "iface2": // Shape, any
		a, b, e := doIface2(
			func() (Shape, error) { v, e := f0(); return encShape(v), e },
			func() (any, error) { v, e := f1(); return encAny(v), e })
		return result{vals: []int{decShape(a), decAny(b)}, err: e}
	case "iface3": // any, error (as a value), Shape
		a, b, c, e := doIface3(
			func() (interface{}, error) { v, e := f0(); return encAny(v), e },
			func() (error, error) { v, e := f1(); return encErrVal(v), e },
			func() (Shape, error) { v, e := f2(); return encShape(v), e })
		return result{vals: []int{decAny(a), decErrVal(b), decShape(c)}, err: e}
	case "ref3": // map, func, chan
		a, b, c, e := doRef3(
			func() (map[string]int, error) { v, e := f0(); return encMap(v), e },
			func() (func() int, error) { v, e := f1(); return encFunc(v), e },
			func() (chan int, error) { v, e := f2(); return encChan(v), e })
		return result{vals: []int{decMap(a), decFunc(b), decChan(c)}, err: e}
	case "ref4": // map, func, chan, struct
		a, b, c, d, e := doRef4(
			func() (map[string]int, error) { v, e := f0(); return encMap(v), e },
			func() (func() int, error) { v, e := f1(); return encFunc(v), e },
			func() (chan int, error) { v, e := f2(); return encChan(v), e },
			func() (S, error) { v, e := f3(); return S{v}, e })
		return result{vals: []int{decMap(a), decFunc(b), decChan(c), d.A}, err: e}
	}
	panic("driver: unsupported shape/number of functions: " + shape)
}

// callRecover: a panic of the derived function in the calling goroutine is an outcome, not a crash
func callRecover(shape string, fns []func() (int, error)) (r result) {
	defer func() {
		if p := recover(); p != nil {
			fmt.Fprintf(os.Stderr, "deriveDo (%s) panicked: %v\n", shape, p)
			r = result{panicked: true}
		}
	}()
	return call(shape, fns)
}

func main() {
	f, err := os.Open(os.Args[1])
	if err != nil {
		panic(err)
	}
	sc := bufio.NewScanner(f)
	sc.Buffer(make([]byte, 1<<20), 1<<24)
	w := bufio.NewWriter(os.Stdout)
	defer w.Flush()
	deadlocks := 0
	lineNo := -1
	for sc.Scan() {
		lineNo++
		parts := strings.SplitN(sc.Text(), "|", 5)
		procs, _ := strconv.Atoi(parts[0])
		var rank []int
		for _, x := range strings.Split(parts[1], ",") {
			k, _ := strconv.Atoi(x)
			rank = append(rank, k)
		}
		shape, class := parts[2], parts[3]
		fsText := parts[4]
		head := "(run " + fsText
		if class != "-" {
			head = "(runc (" + class + ") " + fsText
		}
		fs := parseFs(fsText)
		n := len(fs)
		runtime.GOMAXPROCS(procs)
		uch := map[int]chan struct{}{}
		for _, fn := range fs {
			for _, o := range fn.ops {
				if uch[o.c] == nil {
					uch[o.c] = make(chan struct{})
				}
			}
		}
		errs := make([]error, n)
		policy := ""
		for _, wd := range strings.Fields(class) {
			if strings.HasPrefix(wd, "errs-") {
				policy = wd
			}
		}
		// functions with the same tag return the SAME error value (a shared sentinel)
		byTag := map[int]error{}
		var finished int32
		fns := make([]func() (int, error), n)
		for i := range fs {
			i := i
			if t := fs[i].re; t != 0 {
				// which error Do returns, and that it returns one, must not depend on what kind of error it is
				if _, ok := byTag[t]; !ok {
					byTag[t] = mkErr(policy, i, t, lineNo+i)
				}
				errs[i] = byTag[t]
			}
			fns[i] = func() (int, error) {
				for _, o := range fs[i].ops {
					if o.send {
						uch[o.c] <- struct{}{}
					} else {
						<-uch[o.c]
					}
				}
				time.Sleep(time.Duration(rank[i]) * 400 * time.Microsecond)
				atomic.AddInt32(&finished, 1)
				return fs[i].rv, errs[i]
			}
		}
		base := runtime.NumGoroutine()
		done := make(chan result, 1)
		var finAtReturn int32
		go func() {
			r := callRecover(shape, fns)
			finAtReturn = atomic.LoadInt32(&finished)
			done <- r
		}()
		select {
		case r := <-done:
			if r.panicked {
				fmt.Fprintf(w, "%s panic)\n", head)
				break // out of the select: next case
			}
			alldone := 0
			if int(finAtReturn) == n {
				alldone = 1
			}
			leaked := 0
			for k := 0; k < 300; k++ {
				leaked = runtime.NumGoroutine() - base
				if leaked <= 0 {
					leaked = 0
					break
				}
				time.Sleep(time.Millisecond)
			}
			e := 0
			if r.err != nil {
				e = 99
				for t, x := range byTag {
					if sameErr(r.err, x) {
						e = t
					}
				}
			}
			vs := make([]string, len(r.vals))
			for i, v := range r.vals {
				vs[i] = strconv.Itoa(v)
			}
			fmt.Fprintf(w, "%s (ret (%s) %d %d %d))\n", head, strings.Join(vs, " "), e, leaked, alldone)
			if leaked > 0 || alldone == 0 {
				deadlocks++ // blocked goroutines stay behind: a few such cases are enough
			}
		case <-time.After(3 * time.Second):
			fmt.Fprintf(w, "%s deadlock)\n", head)
			deadlocks++
		}
		if deadlocks >= 4 {
			break
		}
	}
}
`

// callsSrc is the user's file: the calls of deriveDo that goderive sees (it imports nothing, so that
// goderive does not have to type-check the standard library from source).
//   - do2, do3, do4: int results, so that a swap of positions still compiles;
//   - doMix: string, pointer, slice;
//   - doIface2, doIface3: results of INTERFACE type (a local interface, any, and error as a value) -
//     the only types whose zero value is a nil interface, i.e. the idiomatic `return nil, err`;
//   - doRef3, doRef4: map, func, chan (and struct) results.
const callsSrc = `package main

func do2(f0 func() (int, error), f1 func() (int, error)) (int, int, error) { return deriveDo2(f0, f1) }

func do3(f0 func() (int, error), f1 func() (int, error), f2 func() (int, error)) (int, int, int, error) {
	return deriveDo3(f0, f1, f2)
}

func do4(f0 func() (int, error), f1 func() (int, error), f2 func() (int, error), f3 func() (int, error)) (int, int, int, int, error) {
	return deriveDo4(f0, f1, f2, f3)
}

type S struct{ A int }

type Shape interface{ Area() int }

func doMix(f0 func() (string, error), f1 func() (*S, error), f2 func() ([]int, error)) (string, *S, []int, error) {
	return deriveDoMix(f0, f1, f2)
}

func doIface2(f0 func() (Shape, error), f1 func() (any, error)) (Shape, any, error) {
	return deriveDoIface2(f0, f1)
}

func doIface3(f0 func() (interface{}, error), f1 func() (error, error), f2 func() (Shape, error)) (interface{}, error, Shape, error) {
	return deriveDoIface3(f0, f1, f2)
}

func doRef3(f0 func() (map[string]int, error), f1 func() (func() int, error), f2 func() (chan int, error)) (map[string]int, func() int, chan int, error) {
	return deriveDoRef3(f0, f1, f2)
}

func doRef4(f0 func() (map[string]int, error), f1 func() (func() int, error), f2 func() (chan int, error), f3 func() (S, error)) (map[string]int, func() int, chan int, S, error) {
	return deriveDoRef4(f0, f1, f2, f3)
}
`
