package c20

// driverSrc is compiled together with calls.go and the derived.gen.go of this run.
// One line per case: GOMAXPROCS|rank of each function (completion order forced by sleeps)|(fs ...)
const driverSrc = `package main

import (
	"bufio"
	"fmt"
	"context"
	"errors"
	"os"
	"runtime"
	"strconv"
	"strings"
	"sync/atomic"
	"time"
)

type dErr struct{ i int }

func (e *dErr) Error() string { return "error of function " + strconv.Itoa(e.i) }

type vErr struct{ i int }

func (e vErr) Error() string { return "value error of function " + strconv.Itoa(e.i) }

type op struct {
	send bool
	c    int
}

type fun struct {
	ops []op
	rv  int
	re  int
}

// parseFs reads (fs (f (OPS) rv re) ...)
func parseFs(s string) []fun {
	toks := strings.Fields(strings.NewReplacer("(", " ( ", ")", " ) ").Replace(s))
	pos := 0
	next := func() string { t := toks[pos]; pos++; return t }
	expect := func(t string) {
		if g := next(); g != t {
			panic("parse: expected " + t + " got " + g)
		}
	}
	var fs []fun
	expect("(")
	expect("fs")
	for toks[pos] == "(" {
		expect("(")
		expect("f")
		expect("(")
		var f fun
		for toks[pos] == "(" {
			expect("(")
			k := next()
			c, _ := strconv.Atoi(next())
			expect(")")
			f.ops = append(f.ops, op{k == "s", c})
		}
		expect(")")
		f.rv, _ = strconv.Atoi(next())
		f.re, _ = strconv.Atoi(next())
		expect(")")
		fs = append(fs, f)
	}
	expect(")")
	return fs
}

type result struct {
	vals []int
	err  error
}

func call(fns []func() (int, error)) result {
	switch len(fns) {
	case 2:
		a, b, e := do2(fns[0], fns[1])
		return result{[]int{a, b}, e}
	case 3:
		a, b, c, e := do3(fns[0], fns[1], fns[2])
		return result{[]int{a, b, c}, e}
	case 4:
		a, b, c, d, e := do4(fns[0], fns[1], fns[2], fns[3])
		return result{[]int{a, b, c, d}, e}
	}
	panic("unsupported number of functions")
}

func main() {
	f, err := os.Open(os.Args[1])
	if err != nil {
		panic(err)
	}
	sc := bufio.NewScanner(f)
	sc.Buffer(make([]byte, 1<<20), 1<<24)
	w := bufio.NewWriter(os.Stdout)
	defer w.Flush()
	deadlocks := 0
	for sc.Scan() {
		parts := strings.SplitN(sc.Text(), "|", 3)
		procs, _ := strconv.Atoi(parts[0])
		var rank []int
		for _, x := range strings.Split(parts[1], ",") {
			k, _ := strconv.Atoi(x)
			rank = append(rank, k)
		}
		fsText := parts[2]
		fs := parseFs(fsText)
		n := len(fs)
		runtime.GOMAXPROCS(procs)
		uch := map[int]chan struct{}{}
		for _, fn := range fs {
			for _, o := range fn.ops {
				if uch[o.c] == nil {
					uch[o.c] = make(chan struct{})
				}
			}
		}
		errs := make([]error, n)
		var finished int32
		fns := make([]func() (int, error), n)
		for i := range fs {
			i := i
			if fs[i].re != 0 {
				// errors of different dynamic types, one of them wrapping context.Canceled: which error Do
				// returns, and that it returns one, must not depend on what kind of error it is
				switch i % 4 {
				case 0:
					errs[i] = &dErr{i}
				case 1:
					errs[i] = errors.New("plain error of function " + strconv.Itoa(i))
				case 2:
					errs[i] = fmt.Errorf("function %d gave up: %w", i, context.Canceled)
				default:
					errs[i] = vErr{i}
				}
			}
			fns[i] = func() (int, error) {
				for _, o := range fs[i].ops {
					if o.send {
						uch[o.c] <- struct{}{}
					} else {
						<-uch[o.c]
					}
				}
				time.Sleep(time.Duration(rank[i]) * 400 * time.Microsecond)
				atomic.AddInt32(&finished, 1)
				return fs[i].rv, errs[i]
			}
		}
		base := runtime.NumGoroutine()
		done := make(chan result, 1)
		var finAtReturn int32
		go func() {
			r := call(fns)
			finAtReturn = atomic.LoadInt32(&finished)
			done <- r
		}()
		select {
		case r := <-done:
			alldone := 0
			if int(finAtReturn) == n {
				alldone = 1
			}
			leaked := 0
			for k := 0; k < 300; k++ {
				leaked = runtime.NumGoroutine() - base
				if leaked <= 0 {
					leaked = 0
					break
				}
				time.Sleep(time.Millisecond)
			}
			e := 0
			if r.err != nil {
				e = 99
				for j := range errs {
					if errs[j] != nil && r.err == errs[j] {
						e = j + 1
					}
				}
			}
			vs := make([]string, len(r.vals))
			for i, v := range r.vals {
				vs[i] = strconv.Itoa(v)
			}
			fmt.Fprintf(w, "(run %s (ret (%s) %d %d %d))\n", fsText, strings.Join(vs, " "), e, leaked, alldone)
			if leaked > 0 || alldone == 0 {
				deadlocks++ // blocked goroutines stay behind: a few such cases are enough
			}
		case <-time.After(3 * time.Second):
			fmt.Fprintf(w, "(run %s deadlock)\n", fsText)
			deadlocks++
		}
		if deadlocks >= 4 {
			break
		}
	}
}
`
