// Package c20: deriveDo.
//
//	(T) the emitted deriveDo for 2, 3 and 4 functions is translated into the goroutine IR of
//	    coq/theories/Do/Sem.v; lib/checks/c20.py re-checks `translated = expected n` in Coq and the
//	    extracted explorer searches the translated program for a violating schedule;
//	(B) a driver runs the generated code on the real runtime (every failing subset, rendezvous
//	    configurations, completion orders, GOMAXPROCS 1/4/16, with and without -race) and the
//	    evaluator compares every outcome with the model's outcome set and the specification.
//	    Hardening round 4: besides the int instances the battery runs instances whose results are
//	    of interface, pointer, slice, map, func, chan, string and struct type, with nil / zero /
//	    typed-nil values (shapes, policies below), and the same package is generated, compiled and
//	    run a second time in a module whose go.mod declares an older language version (go 1.21:
//	    per-loop instead of per-iteration loop variables; thorough also go 1.18).
package c20

import (
	"encoding/json"
	"fmt"
	"os"
	"path/filepath"
	"strings"
	"time"

	"verifharness/internal/hx"
)

type translation struct {
	N      int    `json:"n"`
	Name   string `json:"name"`
	OK     bool   `json:"ok"`
	Reason string `json:"reason"`
	Sexp   string `json:"sexp"`
	VFile  string `json:"vfile"`
	Source string `json:"source"`
}

type config struct {
	name    string
	scripts func(n int) [][]string // per function: list of "(s c)" / "(r c)"
}

func configs() []config {
	mk := func(n int) [][]string { return make([][]string, n) }
	return []config{
		{"independent", func(n int) [][]string { return mk(n) }},
		{"pair01", func(n int) [][]string { s := mk(n); s[0] = []string{"(s 0)"}; s[1] = []string{"(r 0)"}; return s }},
		{"first-waits-for-last", func(n int) [][]string {
			s := mk(n)
			s[n-1] = []string{"(s 0)"}
			s[0] = []string{"(r 0)"}
			return s
		}},
		{"chain", func(n int) [][]string {
			s := mk(n)
			for i := 0; i < n; i++ {
				if i > 0 {
					s[i] = append(s[i], fmt.Sprintf("(r %d)", i-1))
				}
				if i < n-1 {
					s[i] = append(s[i], fmt.Sprintf("(s %d)", i))
				}
			}
			return s
		}},
		{"pingpong", func(n int) [][]string {
			s := mk(n)
			s[0] = []string{"(s 0)", "(r 1)"}
			s[n-1] = []string{"(r 0)", "(s 1)"}
			return s
		}},
		{"all-to-last", func(n int) [][]string {
			s := mk(n)
			for i := 0; i < n-1; i++ {
				s[i] = []string{"(s 0)"}
				s[n-1] = append(s[n-1], "(r 0)")
			}
			return s
		}},
	}
}

func fsSexp(n int, mask int, scripts [][]string) string {
	return fsSexpV(n, mask, scripts, nil)
}

// fsSexpV: rvs (optional) gives the result value of every function; default 100+7i
func fsSexpV(n int, mask int, scripts [][]string, rvs []int) string {
	var b strings.Builder
	b.WriteString("(fs")
	for i := 0; i < n; i++ {
		re := 0
		if mask&(1<<i) != 0 {
			re = i + 1
		}
		rv := 100 + 7*i
		if rvs != nil {
			rv = rvs[i]
		}
		fmt.Fprintf(&b, " (f (%s) %d %d)", strings.Join(scripts[i], " "), rv, re)
	}
	b.WriteString(")")
	return b.String()
}

// shapes: the typed instances of callsSrc (driver: call)
type shape struct {
	name string
	n    int
}

func typedShapes() []shape {
	return []shape{{"iface2", 2}, {"iface3", 3}, {"mix", 3}, {"ref3", 3}, {"ref4", 4}}
}

// value policies: which natural number (hence which value of the result type, see driversrc.go)
// every function returns. 0 = zero value (nil interface, nil pointer, ...), 1 = typed nil / empty.
func policies() []string {
	return []string{"nil-when-failing", "all-nil", "typed-nil", "mixed", "values"}
}

func policyValues(pol string, n, mask int, r *hx.Rand) []int {
	rvs := make([]int, n)
	for i := range rvs {
		v := 100 + 7*i
		switch pol {
		case "nil-when-failing": // the idiomatic `return nil, err`
			if mask&(1<<i) != 0 {
				v = 0
			}
		case "all-nil":
			v = 0
		case "typed-nil":
			v = 1
		case "mixed":
			v = []int{0, 1, v}[r.Intn(3)]
		}
		rvs[i] = v
	}
	return rvs
}

func ranks(o []int) string {
	var rk []string
	for _, x := range o {
		rk = append(rk, fmt.Sprint(x))
	}
	return strings.Join(rk, ",")
}

// typedCases: every typed shape x configurations x every failing subset x value policies
// (one completion order and one GOMAXPROCS per case, rotating). The evaluation of a 4-function
// observation by the model costs ten times that of a 3-function one, and the result types do not
// interact with the arity: the quick tier runs the 4-function shape with less (want).
func typedCases(meta *hx.Meta, r *hx.Rand, gover string, want func(sh shape, cfg, pol string) bool) (string, int) {
	var b strings.Builder
	k := 0
	for _, sh := range typedShapes() {
		all := perms(sh.n)
		for _, c := range configs() {
			for mask := 0; mask < 1<<sh.n; mask++ {
				for _, pol := range policies() {
					if !want(sh, c.name, pol) {
						continue
					}
					o := all[r.Intn(len(all))]
					pr := []int{1, 4, 16}[k%3]
					rvs := policyValues(pol, sh.n, mask, r)
					fmt.Fprintf(&b, "%d|%s|%s|%s %s %s|%s\n", pr, ranks(o), sh.name, gover, sh.name, pol,
						fsSexpV(sh.n, mask, c.scripts(sh.n), rvs))
					k++
					meta.Count(fmt.Sprintf("run/%s/%s/%s", gover, sh.name, pol))
				}
			}
		}
	}
	return b.String(), k
}

// intCasesOld: the int instances in the old-language-version module: n = 2..4 x every
// configuration x every failing subset (quick: a quarter of the subsets for n = 4), one completion
// order each.
func intCasesOld(meta *hx.Meta, r *hx.Rand, gover string, thorough bool) (string, int) {
	var b strings.Builder
	k := 0
	for n := 2; n <= 4; n++ {
		all := perms(n)
		for ci, c := range configs() {
			for mask := 0; mask < 1<<n; mask++ {
				if n == 4 && !thorough && (mask+ci)%4 != 0 {
					continue
				}
				o := all[r.Intn(len(all))]
				pr := []int{1, 4, 16}[k%3]
				fmt.Fprintf(&b, "%d|%s|int|%s int values|%s\n", pr, ranks(o), gover, fsSexp(n, mask, c.scripts(n)))
				k++
				meta.Count(fmt.Sprintf("run/%s/int/n=%d", gover, n))
			}
		}
	}
	return b.String(), k
}

// error policies (hardening round 5): what kind of VALUE the error of a failing function is
// (driversrc.go: mkErr). The original battery used four comparable kinds, a different one per
// position. errs-slice/-map/-multi/-func: every failing function returns an error of the same
// dynamic type whose values are not comparable (validation errors / multi errors are commonly slices,
// maps, structs with a slice field); errs-boxed: a comparable struct type holding such an error;
// errs-uncmp-mixed: a seeded mixture of these; errs-same-slice / errs-sentinel / errs-nilptr: all
// failing functions return the SAME error value (one tag in the model) - an uncomparable one, a
// package-level sentinel, a typed nil pointer (a non-nil error).
func errPolicies() []string {
	return []string{"errs-slice", "errs-map", "errs-multi", "errs-boxed", "errs-func", "errs-uncmp-mixed",
		"errs-same-slice", "errs-sentinel", "errs-nilptr"}
}

func sharedErr(pol string) bool {
	return pol == "errs-same-slice" || pol == "errs-sentinel" || pol == "errs-nilptr"
}

// fsSexpE: like fsSexp, but under a shared-error policy every failing function has the tag 1
func fsSexpE(n int, mask int, scripts [][]string, pol string) string {
	var b strings.Builder
	b.WriteString("(fs")
	for i := 0; i < n; i++ {
		re := 0
		if mask&(1<<i) != 0 {
			re = i + 1
			if sharedErr(pol) {
				re = 1
			}
		}
		fmt.Fprintf(&b, " (f (%s) %d %d)", strings.Join(scripts[i], " "), 100+7*i, re)
	}
	b.WriteString(")")
	return b.String()
}

// errCases: the int instances x error policies x failing subsets x configurations.
// quick: n = 2 every subset x {independent, pair01}; n = 3 every subset, the configuration
// alternating between independent and first-waits-for-last; n = 4 one subset with at least two
// failing functions per policy (the model evaluation of a 4-function case is expensive).
// thorough: n <= 3 every configuration x every subset; n = 4 independent x every subset with at
// least two failing functions.
func errCases(meta *hx.Meta, r *hx.Rand, gover string, thorough bool) (string, int) {
	var b strings.Builder
	k := 0
	cs := configs()
	byName := map[string]config{}
	for _, c := range cs {
		byName[c.name] = c
	}
	emit := func(n, mask int, c config, pol string) {
		all := perms(n)
		o := all[r.Intn(len(all))]
		pr := []int{1, 4, 16}[k%3]
		fmt.Fprintf(&b, "%d|%s|int|%s int %s|%s\n", pr, ranks(o), gover, pol, fsSexpE(n, mask, c.scripts(n), pol))
		k++
		meta.Count(fmt.Sprintf("run/%s/int/%s/n=%d", gover, pol, n))
	}
	for pi, pol := range errPolicies() {
		for n := 2; n <= 3; n++ {
			for mask := 0; mask < 1<<n; mask++ {
				switch {
				case thorough:
					for _, c := range cs {
						emit(n, mask, c, pol)
					}
				case n == 2:
					emit(n, mask, byName["independent"], pol)
					emit(n, mask, byName["pair01"], pol)
				default:
					emit(n, mask, byName[[]string{"independent", "first-waits-for-last"}[(mask+pi)%2]], pol)
				}
			}
		}
		var multi []int // subsets of 4 with at least two failing functions
		for mask := 0; mask < 16; mask++ {
			if mask&(mask-1) != 0 {
				multi = append(multi, mask)
			}
		}
		if thorough {
			for _, mask := range multi {
				emit(4, mask, byName["independent"], pol)
			}
		} else {
			emit(4, multi[r.Intn(len(multi))], byName["independent"], pol)
		}
	}
	return b.String(), k
}

func perms(n int) [][]int {
	var out [][]int
	var rec func(cur []int, used int)
	rec = func(cur []int, used int) {
		if len(cur) == n {
			out = append(out, append([]int{}, cur...))
			return
		}
		for i := 0; i < n; i++ {
			if used&(1<<i) == 0 {
				rec(append(cur, i), used|1<<i)
			}
		}
	}
	rec(nil, 0)
	return out
}

func Run(cfg hx.Config) (*hx.Meta, error) {
	meta := &hx.Meta{Property: "C20", Seed: cfg.Seed, Tier: cfg.Tier}
	r := hx.NewRand(cfg.Seed)
	dir := filepath.Join(cfg.Work, "c20pkg")
	if err := hx.Module(dir); err != nil {
		return nil, err
	}
	// ---- the package: deriveDo for 2, 3, 4 functions (all results int, so that a swap of
	// positions still compiles) and instances with other result types (callsSrc) ----
	files := map[string]string{"calls.go": callsSrc}
	if err := hx.WriteFiles(dir, files); err != nil {
		return nil, err
	}
	meta.Packages = 1
	g := hx.Goderive(cfg.Goderive, dir, ".")
	meta.GoderiveRuns++
	if g.Exit != 0 {
		meta.AddDirect(hx.Direct{Class: "c20-generate-failed", What: "goderive failed on the C20 package",
			Files: files, Cmd: "goderive .", Output: hx.Truncate(g.Out, 4000)})
		return meta, nil
	}
	gen, err := os.ReadFile(filepath.Join(dir, "derived.gen.go"))
	if err != nil {
		return nil, err
	}
	_ = os.WriteFile(filepath.Join(cfg.Out, "c20.derived.gen.go"), gen, 0o644)

	// ---- (T) translation ----
	var trs []translation
	type inst struct {
		n    int
		name string
	}
	progs := map[int]*irProg{}
	for _, in := range []inst{{2, "deriveDo2"}, {3, "deriveDo3"}, {4, "deriveDo4"}, {3, "deriveDoMix"}} {
		t := translation{N: in.n, Name: in.name}
		p, terr := translateDo(gen, in.name)
		if terr != nil {
			t.Reason = terr.Error()
			meta.Count("translate/untranslatable")
		} else {
			t.OK = true
			t.Sexp = p.Sexp()
			t.VFile = filepath.Join(cfg.Out, "Translated_"+in.name+".v")
			v := fmt.Sprintf("(* generated by the C20 harness from the deriveDo that goderive emitted in this run *)\n"+
				"From Verif Require Import Base Sexp Do.Sem Eval20.\nOpen Scope string_scope.\n\n"+
				"Definition translated : sexp :=\n  %s.\n\n"+
				"Goal prog_of_sexp translated = Some (expected %d).\nProof. vm_compute. reflexivity. Qed.\n", p.CoqSexp(), in.n)
			if err := os.WriteFile(t.VFile, []byte(v), 0o644); err != nil {
				return nil, err
			}
			if in.name != "deriveDoMix" {
				progs[in.n] = p
			}
			meta.Count("translate/ok")
		}
		trs = append(trs, t)
	}
	tb, _ := json.MarshalIndent(trs, "", " ")
	if err := os.WriteFile(filepath.Join(cfg.Out, "c20.translate.json"), tb, 0o644); err != nil {
		return nil, err
	}

	// ---- search observations: the translated programs under every failing subset and every
	// rendezvous configuration (n <= 3; n = 4 as well in the thorough tier) ----
	var search strings.Builder
	maxSearch := 3
	if cfg.Tier == "thorough" {
		maxSearch = 4
	}
	nsearch := 0
	for n := 2; n <= maxSearch; n++ {
		p := progs[n]
		if p == nil {
			continue
		}
		for _, c := range configs() {
			for mask := 0; mask < 1<<n; mask++ {
				fmt.Fprintf(&search, "(search %s %s)\n", p.Sexp(), fsSexp(n, mask, c.scripts(n)))
				nsearch++
				meta.Count("search/" + c.name)
			}
		}
	}
	// regression corpus: configurations that exposed earlier mutants, replayed on every translated program
	var corpus []string
	if b, err := os.ReadFile(filepath.Join(cfg.Corpus, "configs.txt")); err == nil {
		for _, l := range strings.Split(string(b), "\n") {
			l = strings.TrimSpace(l)
			if strings.HasPrefix(l, "(fs") {
				corpus = append(corpus, l)
			}
		}
	}
	for _, l := range corpus {
		n := strings.Count(l, "(f (")
		if p := progs[n]; p != nil {
			fmt.Fprintf(&search, "(search %s %s)\n", p.Sexp(), l)
			nsearch++
			meta.Count("search/corpus")
		}
	}
	sobs := filepath.Join(cfg.Out, "c20-a-search.obs")
	if err := os.WriteFile(sobs, []byte(search.String()), 0o644); err != nil {
		return nil, err
	}
	meta.ObsFiles = append(meta.ObsFiles, sobs)

	// ---- (B) the real runtime ----
	var cases strings.Builder
	ncase := 0
	for n := 2; n <= 4; n++ {
		all := perms(n)
		for _, c := range configs() {
			for mask := 0; mask < 1<<n; mask++ {
				var orders [][]int
				if cfg.Tier == "thorough" {
					orders = all
				} else {
					orders = [][]int{all[0], all[len(all)-1], all[r.Intn(len(all))]}
				}
				for oi, o := range orders {
					procs := []int{1, 4, 16}
					if cfg.Tier != "thorough" {
						procs = []int{[]int{1, 4, 16}[(oi+mask+n)%3]}
					}
					for _, pr := range procs {
						fmt.Fprintf(&cases, "%d|%s|int|-|%s\n", pr, ranks(o), fsSexp(n, mask, c.scripts(n)))
						ncase++
						meta.Count(fmt.Sprintf("run/n=%d/%s", n, c.name))
						meta.Count(fmt.Sprintf("run/gomaxprocs=%d", pr))
					}
				}
			}
		}
	}
	var ccases strings.Builder
	for _, l := range corpus {
		n := strings.Count(l, "(f (")
		if n < 2 || n > 4 {
			continue
		}
		for _, pr := range []int{1, 4, 16} {
			rk := []string{"0", "1", "2", "3"}[:n]
			fmt.Fprintf(&ccases, "%d|%s|int|-|%s\n", pr, strings.Join(rk, ","), l)
			ncase++
			meta.Count("run/corpus")
		}
	}
	// typed result shapes x value policies (nil interfaces, nil pointers, typed nils, ...)
	rt := r.Fork(20)
	thorough := cfg.Tier == "thorough"
	tcases, nt := typedCases(meta, rt, "go1.24", func(sh shape, c, pol string) bool {
		if thorough {
			return sh.n < 4 || c == "independent" || c == "first-waits-for-last" || c == "chain"
		}
		if sh.n == 4 {
			return c == "independent" && (pol == "nil-when-failing" || pol == "mixed")
		}
		return c == "independent" || c == "first-waits-for-last"
	})
	ncase += nt
	// error values of other dynamic types (uncomparable, shared, typed nil)
	ecases, ne := errCases(meta, r.Fork(30), "go1.24", thorough)
	ncase += ne
	genFiles := map[string]string{"go.mod": "module p\n\ngo 1.24\n", "calls.go": callsSrc, "derived.gen.go": string(gen)}
	if !runBattery(meta, cfg, dir, "", genFiles, ccases.String()+ecases+tcases+cases.String()) {
		meta.Cases = ncase + nsearch
		return meta, nil
	}

	// ---- (B') the same package in modules that declare an older language version: the generated
	// code is compiled with the user's go.mod, not with goderive's. go 1.21 = the last version with
	// per-loop loop variables; go 1.18 = the first with `any`. ----
	govers := []string{"1.21"}
	if cfg.Tier == "thorough" {
		govers = append(govers, "1.18")
	}
	for _, gv := range govers {
		odir := filepath.Join(cfg.Work, "c20pkg-go"+gv)
		gomod := "module p\n\ngo " + gv + "\n"
		ofiles := map[string]string{"go.mod": gomod, "calls.go": callsSrc}
		if err := hx.WriteFiles(odir, ofiles); err != nil {
			return nil, err
		}
		meta.Packages++
		og := hx.Goderive(cfg.Goderive, odir, ".")
		meta.GoderiveRuns++
		if og.Exit != 0 {
			meta.AddDirect(hx.Direct{Class: "c20-generate-failed", What: "goderive failed on the C20 package in a module with `go " + gv + "`",
				Files: ofiles, Cmd: "goderive .", Output: hx.Truncate(og.Out, 4000)})
			continue
		}
		ogen, err := os.ReadFile(filepath.Join(odir, "derived.gen.go"))
		if err != nil {
			return nil, err
		}
		_ = os.WriteFile(filepath.Join(cfg.Out, "c20-go"+gv+".derived.gen.go"), ogen, 0o644)
		if string(ogen) == string(gen) {
			meta.Count("oldmodule/go" + gv + "/generated-identical")
		} else {
			meta.Count("oldmodule/go" + gv + "/generated-differs")
		}
		ofiles["derived.gen.go"] = string(ogen)
		ro := r.Fork(uint64(len(gv)) + 21)
		oc1, n1 := intCasesOld(meta, ro, "go"+gv, thorough)
		oc2, n2 := typedCases(meta, ro, "go"+gv, func(sh shape, c, pol string) bool {
			if pol != "nil-when-failing" && pol != "mixed" {
				return false
			}
			if sh.n == 4 {
				return thorough && c == "independent"
			}
			return c == "independent" || c == "first-waits-for-last" || (thorough && c == "chain")
		})
		ncase += n1 + n2
		runBattery(meta, cfg, odir, "-go"+gv, ofiles, oc2+oc1)
	}
	meta.Cases = ncase + nsearch
	return meta, nil
}

// runBattery compiles driver + calls.go + derived.gen.go in dir (plain and with the race
// detector), runs the cases and registers the observation files. false = does not compile.
func runBattery(meta *hx.Meta, cfg hx.Config, dir, suffix string, genFiles map[string]string, cases string) bool {
	if err := hx.WriteFiles(dir, map[string]string{"driver.go": driverSrc, "cases.txt": cases}); err != nil {
		meta.AddDirect(hx.Direct{Class: "c20-harness-error", What: err.Error()})
		return false
	}
	where := "go.mod: " + strings.TrimSpace(strings.TrimPrefix(genFiles["go.mod"], "module p\n\n"))
	for _, mode := range []string{"plain", "race"} {
		exe := filepath.Join(dir, "drv-"+mode)
		args := []string{"build", "-o", exe}
		if mode == "race" {
			args = append(args, "-race")
		}
		args = append(args, ".")
		b := hx.Run(dir, 10*time.Minute, 0, hx.GoEnv(), "go", args...)
		if b.Exit != 0 {
			if mode == "race" && strings.Contains(b.Out, "-race") && !strings.Contains(b.Out, "derived.gen.go") {
				meta.Notes = append(meta.Notes, "go build -race is not available here: "+hx.Truncate(b.Out, 300))
				continue
			}
			meta.AddDirect(hx.Direct{Class: "c20-build-failed", What: "generated deriveDo package does not compile (" + where + ")",
				Files: genFiles, Cmd: "goderive . && go " + strings.Join(args, " "), Output: hx.Truncate(b.Out, 4000)})
			return false
		}
		env := append(hx.GoEnv(), "GORACE=halt_on_error=0 exitcode=66")
		res := hx.Run(dir, 20*time.Minute, 0, env, exe, "cases.txt")
		obs := filepath.Join(cfg.Out, "c20-run"+suffix+"-"+mode+".obs")
		if err := os.WriteFile(obs, []byte(res.Stdout), 0o644); err != nil {
			meta.AddDirect(hx.Direct{Class: "c20-harness-error", What: err.Error()})
			return false
		}
		meta.ObsFiles = append(meta.ObsFiles, obs)
		meta.Count("driver" + suffix + "/" + mode)
		if strings.Contains(res.Out, "WARNING: DATA RACE") {
			meta.AddDirect(hx.Direct{Class: "c20-data-race", What: "the race detector reports a data race in the generated deriveDo (" + where + ")",
				Files: genFiles, Cmd: "go build -race && ./drv cases.txt", Output: hx.Truncate(res.Out[strings.Index(res.Out, "WARNING: DATA RACE"):], 4000)})
		} else if res.Exit != 0 && !strings.Contains(res.Stdout, "deadlock") {
			meta.AddDirect(hx.Direct{Class: "c20-driver-failed", What: "driver failed (" + where + ")", Files: genFiles,
				Cmd: "./drv-" + mode + " cases.txt", Output: hx.Truncate(res.Out, 4000)})
		}
		if k := strings.Index(res.Out, "panicked: "); k >= 0 {
			meta.Notes = append(meta.Notes, where+", "+mode+": "+hx.Truncate(res.Out[strings.LastIndex(res.Out[:k], "\n")+1:], 300))
		}
		for i, l := range strings.Split(res.Stdout, "\n") {
			if i%97 == 40 && l != "" {
				meta.Sample(mode + suffix + ": " + hx.Truncate(l, 220))
			}
		}
	}
	return true
}
