// Package c20: correspondence harness of C20 (stub: replaced when C20 is built).
package c20

import (
	"fmt"

	"verifharness/internal/hx"
)

func Run(cfg hx.Config) (*hx.Meta, error) {
	return nil, fmt.Errorf("C20: harness not built yet")
}
