package c20

// Translator (T): the emitted deriveDo, parsed with go/parser, becomes a term of the IR of
// coq/theories/Do/Sem.v.  The translation is canonical: identifiers are resolved to their
// declarations (ast.Object identity), functions are numbered by parameter position, result
// cells by declaration order, goroutine bodies by order of their go statements, so a
// renaming of variables changes nothing.

import (
	"fmt"
	"go/ast"
	"go/parser"
	"go/token"
	"strconv"
	"strings"
)

type ins struct {
	op   string
	args []int
}

type irProg struct {
	cap    int
	ncells int
	bodies [][]ins
	main   []ins
}

type xerr struct{ msg string }

func (e xerr) Error() string { return e.msg }

func bad(format string, a ...interface{}) { panic(xerr{fmt.Sprintf(format, a...)}) }

type tr struct {
	fset    *token.FileSet
	params  map[*ast.Object]int // function parameter -> index
	chanObj *ast.Object
	errObj  *ast.Object         // the caller's kept error
	cells   map[*ast.Object]int // result cell -> index
	prog    *irProg
}

type ctx struct {
	code    *[]ins
	inGo    bool
	errReg  *ast.Object // goroutine: the local the call's error was stored in
	errcObj *ast.Object // caller: the local the last receive was stored in
	cntObj  *ast.Object
}

func obj(e ast.Expr) *ast.Object {
	if id, ok := e.(*ast.Ident); ok {
		return id.Obj
	}
	return nil
}

func isNil(e ast.Expr) bool {
	id, ok := e.(*ast.Ident)
	return ok && id.Name == "nil" && id.Obj == nil
}

// translateDo finds the function called name in src and translates it.
func translateDo(src []byte, name string) (p *irProg, err error) {
	defer func() {
		if r := recover(); r != nil {
			if x, ok := r.(xerr); ok {
				p, err = nil, x
				return
			}
			panic(r)
		}
	}()
	fset := token.NewFileSet()
	f, perr := parser.ParseFile(fset, "derived.gen.go", src, 0)
	if perr != nil {
		return nil, perr
	}
	var fd *ast.FuncDecl
	for _, d := range f.Decls {
		if x, ok := d.(*ast.FuncDecl); ok && x.Name.Name == name && x.Recv == nil {
			fd = x
		}
	}
	if fd == nil {
		return nil, xerr{"function " + name + " not found in derived.gen.go"}
	}
	t := &tr{fset: fset, params: map[*ast.Object]int{}, cells: map[*ast.Object]int{}, prog: &irProg{}}
	k := 0
	for _, fld := range fd.Type.Params.List {
		for _, nm := range fld.Names {
			t.params[nm.Obj] = k
			k++
		}
	}
	// pass 1: caller-level variables; the kept error is the last operand of the final return
	var vars []*ast.Object
	for _, st := range fd.Body.List {
		if ds, ok := st.(*ast.DeclStmt); ok {
			gd := ds.Decl.(*ast.GenDecl)
			if gd.Tok != token.VAR {
				bad("unexpected declaration at %s", fset.Position(ds.Pos()))
			}
			for _, sp := range gd.Specs {
				vs := sp.(*ast.ValueSpec)
				if len(vs.Values) != 0 {
					bad("variable declared with an initial value at %s", fset.Position(vs.Pos()))
				}
				for _, nm := range vs.Names {
					vars = append(vars, nm.Obj)
				}
			}
		}
	}
	if len(fd.Body.List) == 0 {
		bad("empty body")
	}
	last, ok := fd.Body.List[len(fd.Body.List)-1].(*ast.ReturnStmt)
	if !ok || len(last.Results) == 0 {
		bad("the function does not end in a return statement with results")
	}
	t.errObj = obj(last.Results[len(last.Results)-1])
	isVar := false
	for _, v := range vars {
		if v == t.errObj && v != nil {
			isVar = true
		}
	}
	if !isVar {
		bad("the last returned operand is not a variable declared in the function")
	}
	for _, v := range vars {
		if v != t.errObj {
			t.cells[v] = len(t.cells)
		}
	}
	t.prog.ncells = len(t.cells)
	t.prog.cap = -1
	c := &ctx{code: &t.prog.main}
	t.block(c, fd.Body.List)
	if t.prog.cap < 0 {
		bad("no error channel is made")
	}
	return t.prog, nil
}

func (t *tr) emit(c *ctx, op string, args ...int) int {
	*c.code = append(*c.code, ins{op, args})
	return len(*c.code) - 1
}

func (t *tr) block(c *ctx, list []ast.Stmt) {
	for _, st := range list {
		t.stmt(c, st)
	}
}

func (t *tr) pos(n ast.Node) string { return t.fset.Position(n.Pos()).String() }

func (t *tr) stmt(c *ctx, st ast.Stmt) {
	switch s := st.(type) {
	case *ast.DeclStmt:
		// var declarations: cells / kept error were collected in pass 1; goroutine locals need nothing
		gd := s.Decl.(*ast.GenDecl)
		if gd.Tok != token.VAR {
			bad("unexpected declaration at %s", t.pos(s))
		}
		for _, sp := range gd.Specs {
			if len(sp.(*ast.ValueSpec).Values) != 0 {
				bad("variable declared with an initial value at %s", t.pos(s))
			}
		}
	case *ast.AssignStmt:
		t.assign(c, s)
	case *ast.GoStmt:
		fl, ok := s.Call.Fun.(*ast.FuncLit)
		if !ok || len(s.Call.Args) != 0 || len(fl.Type.Params.List) != 0 {
			bad("go statement is not `go func() {...}()` at %s", t.pos(s))
		}
		if c.inGo {
			bad("nested go statement at %s", t.pos(s))
		}
		var body []ins
		gc := &ctx{code: &body, inGo: true}
		t.block(gc, fl.Body.List)
		t.prog.bodies = append(t.prog.bodies, body)
		t.emit(c, "go", len(t.prog.bodies)-1)
	case *ast.ExprStmt:
		// func() {...}() : an immediately invoked closure runs in the current thread
		call, ok := s.X.(*ast.CallExpr)
		if ok {
			if fl, ok2 := call.Fun.(*ast.FuncLit); ok2 && len(call.Args) == 0 && len(fl.Type.Params.List) == 0 {
				inner := &ctx{code: c.code, inGo: c.inGo}
				t.block(inner, fl.Body.List)
				return
			}
		}
		bad("unsupported expression statement at %s", t.pos(s))
	case *ast.SendStmt:
		if obj(s.Chan) == nil || obj(s.Chan) != t.chanObj {
			bad("send on something other than the error channel at %s", t.pos(s))
		}
		if obj(s.Value) == nil || obj(s.Value) != c.errReg {
			bad("the value sent at %s is not the error of the preceding call", t.pos(s))
		}
		t.emit(c, "send")
	case *ast.ForStmt:
		t.forStmt(c, s)
	case *ast.IfStmt:
		t.ifStmt(c, s)
	case *ast.ReturnStmt:
		if c.inGo {
			bad("return inside a goroutine at %s", t.pos(s))
		}
		n := len(s.Results)
		if n == 0 || obj(s.Results[n-1]) == nil || obj(s.Results[n-1]) != t.errObj {
			bad("return at %s does not return the kept error last", t.pos(s))
		}
		var cs []int
		for _, r := range s.Results[:n-1] {
			k, ok := t.cells[obj(r)]
			if !ok || obj(r) == nil {
				bad("return at %s returns something that is not a result variable", t.pos(s))
			}
			cs = append(cs, k)
		}
		t.emit(c, "ret", cs...)
	case *ast.BlockStmt:
		t.block(c, s.List)
	default:
		bad("unsupported statement %T at %s", st, t.pos(st))
	}
}

func (t *tr) assign(c *ctx, s *ast.AssignStmt) {
	// errChan := make(chan error[, cap])
	if len(s.Lhs) == 1 && len(s.Rhs) == 1 {
		if call, ok := s.Rhs[0].(*ast.CallExpr); ok {
			if id, ok := call.Fun.(*ast.Ident); ok && id.Name == "make" && id.Obj == nil && s.Tok == token.DEFINE {
				if _, ok := call.Args[0].(*ast.ChanType); !ok || c.inGo || t.chanObj != nil {
					bad("unsupported make at %s", t.pos(s))
				}
				t.chanObj = obj(s.Lhs[0])
				t.prog.cap = 0
				if len(call.Args) == 2 {
					lit, ok := call.Args[1].(*ast.BasicLit)
					if !ok || lit.Kind != token.INT {
						bad("channel capacity is not an integer literal at %s", t.pos(s))
					}
					k, err := strconv.Atoi(lit.Value)
					if err != nil {
						bad("channel capacity %s", lit.Value)
					}
					t.prog.cap = k
				}
				return
			}
		}
		// errc := <-errChan
		if u, ok := s.Rhs[0].(*ast.UnaryExpr); ok && u.Op == token.ARROW {
			if obj(u.X) == nil || obj(u.X) != t.chanObj {
				bad("receive from something other than the error channel at %s", t.pos(s))
			}
			if obj(s.Lhs[0]) == nil {
				bad("receive into a non-variable at %s", t.pos(s))
			}
			c.errcObj = obj(s.Lhs[0])
			t.emit(c, "recv")
			return
		}
		// err = errc
		if s.Tok == token.ASSIGN && obj(s.Lhs[0]) != nil && obj(s.Lhs[0]) == t.errObj &&
			obj(s.Rhs[0]) != nil && obj(s.Rhs[0]) == c.errcObj {
			t.emit(c, "seterr")
			return
		}
	}
	// vK, vKerr = fJ()
	if len(s.Lhs) == 2 && len(s.Rhs) == 1 {
		if call, ok := s.Rhs[0].(*ast.CallExpr); ok && len(call.Args) == 0 {
			fn, okf := t.params[obj(call.Fun)]
			cell, okc := t.cells[obj(s.Lhs[0])]
			if okf && okc && obj(call.Fun) != nil && obj(s.Lhs[0]) != nil && obj(s.Lhs[1]) != nil {
				c.errReg = obj(s.Lhs[1])
				t.emit(c, "call", fn, cell)
				return
			}
		}
	}
	bad("unsupported assignment at %s", t.pos(s))
}

func (t *tr) forStmt(c *ctx, s *ast.ForStmt) {
	// for i := 0; i < N; i++ { ... }
	init, ok := s.Init.(*ast.AssignStmt)
	if !ok || init.Tok != token.DEFINE || len(init.Lhs) != 1 || len(init.Rhs) != 1 {
		bad("unsupported loop initialisation at %s", t.pos(s))
	}
	if lit, ok := init.Rhs[0].(*ast.BasicLit); !ok || lit.Value != "0" {
		bad("loop counter does not start at 0 at %s", t.pos(s))
	}
	i := obj(init.Lhs[0])
	cond, ok := s.Cond.(*ast.BinaryExpr)
	if !ok || cond.Op != token.LSS || obj(cond.X) != i || i == nil {
		bad("unsupported loop condition at %s", t.pos(s))
	}
	lit, ok := cond.Y.(*ast.BasicLit)
	if !ok || lit.Kind != token.INT {
		bad("loop bound is not an integer literal at %s", t.pos(s))
	}
	n, err := strconv.Atoi(lit.Value)
	if err != nil {
		bad("loop bound %s", lit.Value)
	}
	post, ok := s.Post.(*ast.IncDecStmt)
	if !ok || post.Tok != token.INC || obj(post.X) != i {
		bad("unsupported loop post statement at %s", t.pos(s))
	}
	if c.cntObj != nil {
		bad("second counted loop at %s (the IR has one counter per thread)", t.pos(s))
	}
	c.cntObj = i
	head := t.emit(c, "loop", n, -1)
	t.block(c, s.Body.List)
	t.emit(c, "next", head)
	(*c.code)[head].args[1] = len(*c.code)
}

func (t *tr) ifStmt(c *ctx, s *ast.IfStmt) {
	if s.Init != nil || s.Else != nil {
		bad("if with init or else at %s", t.pos(s))
	}
	cond, ok := s.Cond.(*ast.BinaryExpr)
	if !ok {
		bad("unsupported condition at %s", t.pos(s))
	}
	x, y := cond.X, cond.Y
	if isNil(x) {
		x, y = y, x
	}
	if !isNil(y) || obj(x) == nil {
		bad("unsupported condition at %s", t.pos(s))
	}
	var idx int
	switch {
	case cond.Op == token.NEQ && obj(x) == c.errcObj:
		idx = t.emit(c, "ifnil", -1)
	case cond.Op == token.EQL && obj(x) == t.errObj:
		idx = t.emit(c, "ifset", -1)
	default:
		bad("unsupported condition at %s", t.pos(s))
	}
	t.block(c, s.Body.List)
	(*c.code)[idx].args[0] = len(*c.code)
}

// ---------- printing ----------

func codeSexp(code []ins) string {
	var parts []string
	for _, i := range code {
		s := "(" + i.op
		for _, a := range i.args {
			s += " " + strconv.Itoa(a)
		}
		parts = append(parts, s+")")
	}
	return strings.Join(parts, " ")
}

func (p *irProg) Sexp() string {
	var bs []string
	for _, b := range p.bodies {
		bs = append(bs, "("+codeSexp(b)+")")
	}
	sep := ""
	if len(bs) > 0 {
		sep = " "
	}
	m := codeSexp(p.main)
	msep := ""
	if m != "" {
		msep = " "
	}
	return fmt.Sprintf("(prog %d %d (bodies%s%s) (main%s%s))", p.cap, p.ncells, sep, strings.Join(bs, " "), msep, m)
}

func codeCoq(code []ins) string {
	var parts []string
	for _, i := range code {
		s := fmt.Sprintf("L [Sym %q", i.op)
		for _, a := range i.args {
			s += fmt.Sprintf("; Num %d%%Z", a)
		}
		parts = append(parts, s+"]")
	}
	return strings.Join(parts, "; ")
}

// CoqSexp prints the same s-expression as a Coq term of type sexp.
func (p *irProg) CoqSexp() string {
	var bs []string
	for _, b := range p.bodies {
		bs = append(bs, "L ["+codeCoq(b)+"]")
	}
	bl := `Sym "bodies"`
	if len(bs) > 0 {
		bl += "; " + strings.Join(bs, ";\n      ")
	}
	ml := `Sym "main"`
	if len(p.main) > 0 {
		ml += "; " + codeCoq(p.main)
	}
	return fmt.Sprintf("L [Sym \"prog\"; Num %d%%Z; Num %d%%Z;\n   L [%s];\n   L [%s]]", p.cap, p.ncells, bl, ml)
}
