module verifharness

go 1.24

require github.com/awalterschulze/goderive v0.0.0

require (
	github.com/kisielk/gotool v1.0.0 // indirect
	golang.org/x/sys v0.5.0 // indirect
	golang.org/x/tools v0.6.0 // indirect
)

replace github.com/awalterschulze/goderive => /repo
