module verifharness

go 1.24

require github.com/awalterschulze/goderive v0.0.0

replace github.com/awalterschulze/goderive => /repo
