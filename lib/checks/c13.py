"""C13: the standard flow; the only addition is that open findings proposed in
known_findings.d/C13.json are honoured until the integrator folds them into known_findings.json."""
import json
import os

import vcheck

_orig_load_known = vcheck.load_known


def _load_known(pid):
    found = list(_orig_load_known(pid))
    path = os.path.join(vcheck.VERIF, "known_findings.d", pid + ".json")
    if os.path.exists(path):
        have = {f.get("id") for f in found}
        for f in json.load(open(path)).get("findings", []):
            if f.get("property") == pid and f.get("status", "open") == "open" and f.get("id") not in have:
                found.append(f)
    return found


def check(pid, tier, seed):
    vcheck.load_known = _load_known
    return vcheck.standard_check(pid, tier, seed)
