"""C09 — every run ends cleanly.  The standard flow, plus: open findings proposed in
known_findings.d/C09.json are honoured (the integrator folds them into known_findings.json),
and crash / bad-file details written by the harness are attached to the violations."""
import json
import os

import vcheck


def check(pid, tier, seed):
    orig = vcheck.load_known

    def load_known(p):
        found = orig(p)
        extra = os.path.join(vcheck.VERIF, "known_findings.d", pid + ".json")
        if os.path.exists(extra):
            have = {f.get("id") for f in found}
            for f in json.load(open(extra)).get("findings", []):
                if f.get("property") == p and f.get("status", "open") == "open" and f.get("id") not in have:
                    found.append(f)
        return found

    vcheck.load_known = load_known
    try:
        return vcheck.standard_check(pid, tier, seed, extra=attach_details)
    finally:
        vcheck.load_known = orig


def attach_details(rep, meta, scratch, gd, hb):
    path = os.path.join(scratch, "out", "c09-details.txt")
    if not os.path.exists(path):
        return
    details, key = {}, None
    for line in open(path).read().splitlines():
        if line.startswith("    ") and key is not None:
            details[key] = details.get(key, "") + line[4:].rstrip() + "\n"
        else:
            key = line.strip()
    for v in rep.violations:
        obs = (v.get("detail") or {}).get("observation")
        if obs and obs in details:
            if obs.startswith("(multi "):
                # several packages: the files of the module and the command line are in the details
                v["detail"]["module_files_and_output"] = details[obs][:8000]
                v["detail"]["how_to_replay"] = ("the observation is (multi <n> (<i> <j> ...) <use> <inv> <class>): a module p with n packages "
                                                "pa, pb, ...; package i imports package j for every pair i j; write the files listed in "
                                                "module_files_and_output and run the goderive command given in its first line in the module directory")
                continue
            v["detail"]["goderive_or_compiler_output"] = details[obs][:3000]
            v["detail"]["how_to_replay"] = ("the observation is (run <plugin> (<argument types>) <class>): write a package whose only "
                                            "call is derive<Plugin>(*new(T1), ...) with those argument types and run goderive on it; "
                                            "a type (n 99xx 0 (if 0)) is a type parameter of the generic function that contains the call")
