"""C10: the standard flow; additionally reads known_findings.d/C10.json so that the check is
self-contained before the integrator folds those entries into known_findings.json."""
import json
import os

import vcheck


def check(pid, tier, seed):
    orig = vcheck.load_known

    def load(p):
        found = list(orig(p))
        path = os.path.join(vcheck.VERIF, "known_findings.d", p + ".json")
        if os.path.exists(path):
            have = {f.get("id") for f in found}
            # an entry already folded into known_findings.json (whatever its status) wins
            main = os.path.join(vcheck.VERIF, "known_findings.json")
            folded = set()
            if os.path.exists(main):
                folded = {f.get("id") for f in json.load(open(main)).get("findings", [])}
            for f in json.load(open(path)):
                if f.get("property") == p and f.get("status", "open") == "open" and f.get("id") not in have | folded:
                    found.append(f)
        return found

    vcheck.load_known = load
    try:
        return vcheck.standard_check(pid, tier, seed)
    finally:
        vcheck.load_known = orig
