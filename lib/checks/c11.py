"""C11: the standard flow, with the extracted evaluator run on several observation files at a
time (the exhaustive in-process enumeration writes 19 shards, >1 GB in the thorough tier)."""
import concurrent.futures
import os

import vcheck

_orig = vcheck.modeleval
_cache = {}
WINDOW = 6


def _prefetching_modeleval(pid, obs_path):
    if obs_path not in _cache:
        d = os.path.dirname(obs_path)
        files = sorted(os.path.join(d, f) for f in os.listdir(d) if f.endswith(".obs"))
        i = files.index(obs_path) if obs_path in files else 0
        batch = [f for f in files[i:i + WINDOW] if f not in _cache] or [obs_path]
        if obs_path not in batch:
            batch.append(obs_path)
        with concurrent.futures.ThreadPoolExecutor(max_workers=WINDOW) as ex:
            for f, res in zip(batch, ex.map(lambda f: _orig(pid, f), batch)):
                _cache[f] = res
    return _cache.pop(obs_path)


def check(pid, tier, seed):
    vcheck.modeleval = _prefetching_modeleval
    try:
        return vcheck.standard_check(pid, tier, seed)
    finally:
        vcheck.modeleval = _orig
