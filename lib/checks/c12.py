"""C12 — prefix customisation only renames.

Standard flow (theorems, harness, evaluator) plus the (T) step: the plugin table that the harness
translated from main.go / plugin/*/*.go of the repository under test is compiled as a Coq term against
the built development, the decidable side conditions of the theorems (`table_ok`, `flags_ok`) are
re-established by vm_compute, and the general theorems are instantiated on that very table
(`default_prefixes_unambiguous`, `actual_table_theorems`, `actual_table_plugin_prefix_equivariant`), so they speak about the table the code
has now."""
import json
import os
import re

import vcheck

TABLE_CHECK = r"""
From Coq Require Import String List Permutation.
From Verif Require Import Prefix.Str Prefix.Dispatch Prefix.Names Prefix.TableFacts Prefix.Gen Prefix.GenOrder
  Prefix.GenClosure Prefix.GenCanon Prefix.GenFull Properties.C12.
From C12Gen Require Import TableGen.
Import ListNotations.

Lemma table_is_ok : table_ok table = true.
Proof. vm_compute. reflexivity. Qed.

Theorem default_prefixes_unambiguous : distinct_prefixes table.
Proof. exact (table_default_unambiguous table table_is_ok). Qed.
Print Assumptions default_prefixes_unambiguous.

Theorem actual_table_dispatch_longest : forall ps' name,
  Permutation ps' table ->
  match dispatch (sort_plugins ps') name with
  | Some p => is_longest_match table name p
  | None => forall q, In q table -> is_prefix (pprefix q) name = false
  end.
Proof. exact (table_dispatch_longest table table_is_ok). Qed.
Print Assumptions actual_table_dispatch_longest.

Theorem actual_table_theorems :
  distinct_prefixes table /\
  (no_nesting_b table = true -> forall name p q, In p table -> In q table -> matches name p -> matches name q -> p = q) /\
  (forall ps' name, Permutation table ps' -> dispatch (sort_plugins table) name = dispatch (sort_plugins ps') name) /\
  (forall global, sort_plugins (map (effective global []) table) = map (effective global []) (sort_plugins table)) /\
  (forall global, distinct_prefixes (map (effective global []) table)) /\
  map (effective derive_head []) table = table.
Proof. exact (C12_table_theorems table table_is_ok). Qed.
Print Assumptions actual_table_theorems.

(* per-plugin prefixes on the table the code has now: for EVERY -prefix and -pluginprefix list the plugin
   order is a permutation of the default one, and (any request relation, any calls handled by plugins of
   the table) the customised run yields the default output up to order, the prefix renaming of the called
   names and a one-to-one renaming of helper names; the emitted (plugin, class) are the closure of the calls *)
Theorem actual_table_plugin_prefix_equivariant :
  forall (T : Type) (T_eqb : T -> T -> bool), (forall a b, Bool.reflect (a = b) (T_eqb a b)) ->
  forall (tyname : T -> str) (requests : nat -> T -> list (nat * T)) (nfuel : nat)
         (global : str) (ovs : list (str * str)) (res res' : str -> bool) (L' : list str) fuel fuel'
         (calls : list (nat * str * T)) out,
  let table' := map (effective global ovs) table in
  (forall q, closure T requests calls q -> fst q < length table) ->
  (forall k n t, In (k, n, t) calls -> is_prefix (pfx_of table k) n = true) ->
  (forall c, res' c = true -> In c L') -> length out + length L' < nfuel -> S (length out) < fuel' ->
  run T T_eqb tyname requests nfuel (pfx_of table) res fuel (order table) calls = Some out ->
  Permutation (order table) (order table') /\
  exists out',
    run T T_eqb tyname requests nfuel (pfx_of table') res' fuel' (order table')
        (map (rn_call T (pfx_of table) (pfx_of table')) calls) = Some out' /\
    renamed_output T (pfx_of table) (pfx_of table') calls out out' /\
    (forall q, In q (map (ekey T) out) <-> closure T requests calls q) /\ NoDup (map (ekey T) out) /\
    Permutation (map (ekey T) out') (map (ekey T) out).
Proof.
  intros T T_eqb spec tyname requests nfuel global ovs res res' L' fuel fuel' calls out table' Hk Hp Hr Hn Hf Hrun.
  split; [apply C12_order_is_permutation; intros a; apply C12_effective_keeps_names|].
  apply (C12_table_plugin_prefix_equivariant T T_eqb spec tyname requests nfuel table (effective global ovs)
           res res' L' fuel fuel' calls out); auto.
  - intros a. apply C12_effective_keeps_names.
  - exact (table_distinct_names table table_is_ok).
Qed.
Print Assumptions actual_table_plugin_prefix_equivariant.
"""

TABLE_DIAG = r"""
From Coq Require Import String List.
From Verif Require Import Prefix.Str Prefix.Dispatch Prefix.TableFacts.
From C12Gen Require Import TableGen.
Eval vm_compute in ("distinct_prefixes"%string, distinct_prefixes_b table).
Eval vm_compute in ("distinct_names"%string, distinct_names_b table).
Eval vm_compute in ("all_start_with_derive"%string, forallb (has_head derive_head) table).
Eval vm_compute in ("nonempty"%string, negb (Nat.eqb (length table) 0)).
Eval vm_compute in ("no_default_nesting"%string, no_nesting_b table).
Eval vm_compute in ("flags_ok"%string, flags_ok t_replace_old t_replace_n t_replace_n_is_literal t_prefix_default).
Eval vm_compute in ("plugins"%string, length table).
"""


def table_step(rep, meta, scratch, gd, hb):
    outdir = os.path.join(scratch, "out")
    extra = os.path.join(outdir, "c12-extra.json")
    if os.path.exists(extra):
        rep.coverage["evaluations"] = rep.coverage.get("evaluations", 0) + json.load(open(extra)).get("direct_cases", 0)
    gen = os.path.join(outdir, "TableGen.v")
    tdir = os.path.join(scratch, "c12gen")
    os.makedirs(tdir, exist_ok=True)
    theories = os.path.join(vcheck.COQ, "theories")
    base = ["coqc", "-R", theories, "Verif", "-Q", tdir, "C12Gen"]
    t_theorems = ["default_prefixes_unambiguous", "actual_table_dispatch_longest", "actual_table_theorems",
                  "actual_table_plugin_prefix_equivariant"]
    rep.coverage["obligations"] = rep.coverage.get("obligations", 0) + len(t_theorems)
    rep.coverage["theorems"] = list(rep.coverage.get("theorems", [])) + ["(T) " + t for t in t_theorems]
    rep.coverage["checker_cmd"] = rep.coverage.get("checker_cmd", "") + \
        " ; (T) coqc of the translated plugin table + TableCheck.v (vm_compute of table_ok/flags_ok, instantiation of the theorems)"
    if not os.path.exists(gen):
        rep.add_broken("the harness did not write the translated plugin table", {})
        return
    text = open(gen).read()
    open(os.path.join(tdir, "TableGen.v"), "w").write(text)
    open(os.path.join(tdir, "TableCheck.v"), "w").write(TABLE_CHECK)
    open(os.path.join(tdir, "TableDiag.v"), "w").write(TABLE_DIAG)
    rc, out = vcheck.run(base + [os.path.join(tdir, "TableGen.v")], timeout=600)
    if rc != 0:
        rep.add_broken("the translated plugin table does not compile as a Coq term", {"coq": out[-2000:], "table": text[:4000]})
        return
    rc, dout = vcheck.run(base + [os.path.join(tdir, "TableDiag.v")], timeout=600)
    flat = " ".join(dout.split())
    conds = dict(re.findall(r'\("(\w+)"(?:%string)?, (true|false)\)', flat))
    nplug = re.search(r'\("plugins"(?:%string)?, (\d+)\)', flat)
    rep.coverage["translated_table"] = {"side_conditions": conds, "plugins": int(nplug.group(1)) if nplug else None,
                                        "source": "main.go + plugin/*/*.go of " + vcheck.REPO}
    rc, out = vcheck.run(base + [os.path.join(tdir, "TableCheck.v")], timeout=900)
    closed = out.count("Closed under the global context")
    if rc != 0 or closed != len(t_theorems) or "Axioms:" in out:
        failing = sorted(k for k, v in conds.items() if v != "true" and k not in ("no_default_nesting", "flags_ok"))
        rep.add_broken("side conditions of the C12 theorems do not hold of the plugin table translated from the sources: %s"
                       % (", ".join(failing) or "TableCheck.v does not compile"),
                       {"side_conditions": conds, "coq": out[-2500:], "table": text[:6000],
                        "meaning": "distinct_prefixes: two plugins share a default prefix (dispatch would depend on the registration order, "
                                   "see C12_dispatch_duplicate_prefix_refuted); all_start_with_derive / flags_ok: the -prefix substitution no longer "
                                   "rewrites the head of every prefix, so the order of plugins can change under -prefix (global_prefix_order needs it)"})
        return
    rep.coverage["discharged"] = rep.coverage.get("discharged", 0) + closed
    if conds.get("flags_ok") != "true":
        # informational: a refactoring of the substitution (TrimPrefix, ...) is not recognised by the translator;
        # what the flags DO is pinned by the dispatch probes under -prefix/-pluginprefix (tags dispatch/*/global*)
        rep.notes.append("main.go's -prefix substitution is not the recognised strings.Replace(p, \"derive\", *prefix, 1) with default \"derive\" "
                         "(translated: %s); the model's `effective` is then tied to the code by the behavioural probes only" % json.dumps(
                             {k: v for k, v in json.load(open(os.path.join(outdir, "table.json"))).items() if k != "plugins"}))
    if conds.get("no_default_nesting") != "true":
        rep.notes.append("default prefixes nest (one is a proper prefix of another): allowed, longest match decides; table_single_candidate does not apply")


def _load_known_with_proposed(orig):
    """known_findings.json is the integrator's; until known_findings.d/C12.json is folded into it the
    proposed entries are read from there as well (never written at run time)."""
    def load(pid):
        found = list(orig(pid))
        path = os.path.join(vcheck.VERIF, "known_findings.d", pid + ".json")
        if os.path.exists(path):
            have = {f.get("id") for f in found}
            for f in json.load(open(path)).get("findings", []):
                if f.get("property") == pid and f.get("status", "open") == "open" and f.get("id") not in have:
                    found.append(f)
        return found
    return load


def check(pid, tier, seed):
    if not getattr(vcheck.load_known, "_c12", False):
        vcheck.load_known = _load_known_with_proposed(vcheck.load_known)
        vcheck.load_known._c12 = True
    return vcheck.standard_check(pid, tier, seed, extra=table_step)
