"""C19 — channel combinators (fmap over channels, dup, join of channels, pipeline).

Flow (differs from vcheck.standard_check in step 3):
  1. Coq development, Properties/C19.v (Print Assumptions), modeleval, goderive + harness.
  2. harness: generates the scratch packages with the goderive of the tree, (T) translates the
     emitted Go into Coq terms tr_<form> (C19Translated.v), (B) runs the combinators on the real
     runtime with the race detector -> hist.obs.
  3. (T) tr_<form> = exp_<form> is proved inside Coq per form (the theorems of Chan/ are about
     the exp_ terms).  A form that differs is handed to the schedule explorer (Chan/Explore.v):
     a failing schedule is a violation with a replay; none found -> broken correspondence.
  4. (B) every observed history is judged by the extracted evaluator (modeleval C19).
"""
import concurrent.futures
import json
import os
import re
import shutil
import subprocess
import tempfile

import vcheck
from vcheck import COQ, REPO, VERIF

# form id -> (expected term, [(search kind, nvar, projection of tr_<form>)])
FORMS = {
    "fmap": ("exp_fmap", [("KFmap", 0, "")]),
    "fmap_cc": ("exp_fmap", [("KFmap", 0, "")]),
    "dup_sr": ("exp_dup", [("KDup", 0, "")]),
    "dup_r": ("exp_dup", [("KDup", 0, "")]),
    "join_cc_r": ("exp_join_cc", [("KJoinCC", 0, "")]),
    "join_cc_sr": ("exp_join_cc", [("KJoinCC", 0, "")]),
    "join_sl_r": ("exp_join_sl", [("KJoinSl", 0, "")]),
    "join_sl_sr": ("exp_join_sl", [("KJoinSl", 0, "")]),
    "join_var2": ("(exp_join_var 2)", [("KJoinVar", 2, "")]),
    "join_var3": ("(exp_join_var 3)", [("KJoinVar", 3, "")]),
    "pipeline": ("exp_pipeline", [("KJoinCC", 0, "fst"), ("KFmap", 0, "snd")]),
    # instances over other element types (error, interface{}, *int): harness/internal/c19/round5.go
    "fmap_e": ("exp_fmap", [("KFmap", 0, "")]),
    "dup_e": ("exp_dup", [("KDup", 0, "")]),
    "join_cc_e": ("exp_join_cc", [("KJoinCC", 0, "")]),
    "join_cc_a": ("exp_join_cc", [("KJoinCC", 0, "")]),
    "join_sl_e": ("exp_join_sl", [("KJoinSl", 0, "")]),
    "join_sl_sa": ("exp_join_sl", [("KJoinSl", 0, "")]),
    "join_sl_p": ("exp_join_sl", [("KJoinSl", 0, "")]),
    "join_var2_e": ("(exp_join_var 2)", [("KJoinVar", 2, "")]),
    "join_var3_p": ("(exp_join_var 3)", [("KJoinVar", 3, "")]),
    "pipeline_e": ("exp_pipeline", [("KJoinCC", 0, "fst"), ("KFmap", 0, "snd")]),
}

WHY = {
    1: "panic (send on closed channel / close of closed channel / negative WaitGroup counter)",
    2: "stuck with a goroutine not halted (deadlock or leaked goroutine)",
    3: "all goroutines halted but items lost/duplicated/reordered or output not closed",
    4: "a schedule that never terminates (cycle)",
    5: "depth bound exhausted",
}

TRUSTED = [
    "C19 translator (harness/internal/c19/translate.go, unverified): go/parser AST of the freshly generated derived.gen.go -> "
    "Chan.Sem IR by a strict statement whitelist (anything else = untranslatable = reported); the theorems are about exp_* and "
    "tr_* = exp_* is checked by the Coq kernel (vm_compute; reflexivity) on every run",
    "Chan/Sem.v as a model of Go's channel / WaitGroup / goroutine semantics (checked against the real runtime by the hist battery, "
    "race detector on)",
    "Chan/Explore.v schedule search: used only to find a failing schedule when tr_* <> exp_*; no 'held' verdict rests on it",
]


def coqc(outdir, fname, timeout):
    """Compile a generated file in outdir; returns (rc, output); rc = -9 on timeout."""
    cmd = ["coqc", "-R", os.path.join(COQ, "theories"), "Verif", "-R", outdir, "C19Gen", fname]
    try:
        return vcheck.run(cmd, cwd=outdir, timeout=timeout)
    except subprocess.TimeoutExpired as e:
        out = e.stdout or ""
        return -9, out if isinstance(out, str) else out.decode(errors="replace")


HEADER = ("From Coq Require Import List NArith. Import ListNotations.\n"
          "From Verif Require Import Chan.Sem Chan.Expected Chan.Explore.\n"
          "From C19Gen Require Import C19Translated.\n")


def parse_sresult(out):
    """`= SFound why cfg sched : sresult` / `= SNone n m : sresult` (possibly over several lines)."""
    text = " ".join(out.split())
    m = re.search(r"= SNone (\d+)(?:%N)? (\d+)(?:%N)? : sresult", text)
    if m:
        return ("none", int(m.group(1)), int(m.group(2)))
    m = re.search(r"= SFound (\d+) (\{\|.*?\|\}) (\[.*\]) : sresult", text)
    if m:
        return ("found", int(m.group(1)), m.group(2), m.group(3))
    return None


def search_form(form, fo, outdir, tier):
    """The translated IR differs from the expected IR: look for a schedule on which it fails.
    Returns ("violation"|"broken", what, detail) (applied to the report by the caller, in form order)."""
    exp, searches = FORMS[form]
    detail0 = {"form": form, "go_func": fo.get("func"), "go_source": fo.get("source"), "translated_ir": fo.get("coq"),
               "expected_ir": "Chan/Expected.v: " + exp}
    tmo = 900 if tier == "thorough" else 120
    searched = []
    for kind, nvar, proj in searches:
        term = "(%s tr_%s)" % (proj, form) if proj else "tr_" + form
        name = "Search_%s%s" % (form, "_" + proj if proj else "")
        open(os.path.join(outdir, name + ".v"), "w").write(
            HEADER + "Eval vm_compute in (search %s %d %s %s).\n" % (kind, nvar, term, "true" if tier == "thorough" else "false"))
        if proj:  # search only the components that differ from their expected counterpart
            open(os.path.join(outdir, name + "_eq.v"), "w").write(
                HEADER + "Goal %s = %s %s. Proof. vm_compute. reflexivity. Qed.\n" % (term, proj, exp))
            if coqc(outdir, name + "_eq.v", 300)[0] == 0:
                searched.append("component %s equals the expected IR (not searched)" % proj)
                continue
        rc, out = coqc(outdir, name + ".v", tmo)
        res = parse_sresult(out) if rc == 0 else None
        if res and res[0] == "found":
            _, why, cfg, sched = res
            d = dict(detail0)
            d.update({"why": WHY.get(why, str(why)), "why_code": why, "search_kind": kind, "config": cfg, "schedule": sched,
                      "how_to_replay": "Eval vm_compute in replay %s %s %s %s   (with %s in scope; actions: Tau t | Sync sender receiver | TauSel t case | SyncSel sender receiver case)"
                                       % (kind, term, cfg, sched, "C19Translated.v of this run")})
            return ("violation", "%s: schedule of the translated IR violates the property: %s" % (form, WHY.get(why, str(why))), d)
        if res:
            searched.append("%d configurations / %d states (%s)" % (res[1], res[2], kind))
        elif rc == -9:
            searched.append("search %s timed out after %d s" % (kind, tmo))
        else:
            searched.append("search %s failed: %s" % (kind, out[-500:]))
    d = dict(detail0)
    d["search"] = searched
    return ("broken", "translated IR of %s differs from the expected IR; no failing schedule found in %s" % (form, "; ".join(searched)), d)


def translated_part(rep, outdir, tier):
    """(T): tr_<form> = exp_<form> in Coq, else search."""
    status = {}
    tj_path = os.path.join(outdir, "translate.json")
    if not os.path.exists(tj_path):
        rep.add_broken("translator produced no output (translate.json missing)", {})
        return status
    tj = json.load(open(tj_path))["forms"]
    rc, out = coqc(outdir, "C19Translated.v", 300)
    if rc != 0:
        rep.add_broken("C19Translated.v (output of the translator) does not compile", {"log": out[-3000:]})
        return status

    def one(form):
        fo = tj.get(form) or {"ok": False, "error": "form missing from translate.json"}
        if not fo.get("ok"):
            return "untranslatable", ("broken", "translator: statement form outside the whitelist in %s" % fo.get("func", form),
                                      {"form": form, "error": fo.get("error"), "go_source": fo.get("source"),
                                       "note": "the emitted code no longer has the shape the Coq model (Chan/Expected.v) was proved about; no IR to search"})
        open(os.path.join(outdir, "Check_%s.v" % form), "w").write(
            "From Verif Require Import Chan.Sem Chan.Expected.\nFrom C19Gen Require Import C19Translated.\n"
            "Goal tr_%s = %s. Proof. vm_compute. reflexivity. Qed.\n" % (form, FORMS[form][0]))
        if coqc(outdir, "Check_%s.v" % form, 300)[0] == 0:
            return "eq", None
        return "differs", search_form(form, fo, outdir, tier)

    # the forms are independent: check / search them concurrently, report in the fixed order
    with concurrent.futures.ThreadPoolExecutor(max_workers=max(2, min(8, os.cpu_count() or 2))) as ex:
        results = list(ex.map(one, list(FORMS)))
    for form, (st, act) in zip(FORMS, results):
        status[form] = st
        if act and act[0] == "violation":
            rep.add_violation("translated", act[1], act[2])
        elif act:
            rep.add_broken(act[1], act[2])
    return status


def check(pid, tier, seed):
    rep = vcheck.Report(pid, tier, seed)
    rep.coverage["trusted_base"] = vcheck.TRUSTED_BASE + TRUSTED
    scratch = tempfile.mkdtemp(prefix="verif-%s-" % pid.lower(), dir=os.environ.get("VERIF_SCRATCH", "/tmp"))
    try:
        ok, log = vcheck.ensure_coq()
        if not ok:
            rep.add_broken("Coq development does not build", log[-3000:])
            rep.coverage.update({"obligations": 1, "discharged": 0, "checker_cmd": "make -C coq"})
            return rep.finish()
        checker = ("make -C /verif/coq && coqc -R /verif/coq/theories Verif /verif/coq/theories/Properties/%s.v  (Print Assumptions under every theorem)"
                   "; per run: coqc C19Translated.v && `Goal tr_<form> = exp_<form>. vm_compute. reflexivity.` for the 21 generated forms" % pid)
        if os.path.exists(os.path.join(COQ, "theories", "Properties", pid + ".v")):
            theorems, discharged, axioms, plog = vcheck.check_properties_file(pid, scratch)
            if axioms or len(discharged) != len(theorems):
                rep.add_broken("property theorems not all closed under the global context", {"axioms": axioms, "log": plog[-2000:]})
        else:
            theorems, discharged = [], []
            rep.notes.append("coq/theories/Properties/%s.v does not exist yet: 0 theorems" % pid)
        rep.coverage.update({"obligations": len(theorems), "discharged": len(discharged), "checker_cmd": checker, "theorems": theorems})
        ok, log = vcheck.ensure_modeleval()
        if not ok:
            rep.add_broken("extracted evaluator does not build", log[-3000:])
            return rep.finish()
        gd, hb, err = vcheck.build_go(scratch)
        if err:
            rep.add_broken("build failure", err[-3000:])
            return rep.finish()
        outdir = os.path.join(scratch, "out")
        work = os.path.join(scratch, "work")
        cmd = [hb, "-prop", pid, "-goderive", gd, "-repo", REPO, "-verif", VERIF, "-work", work, "-out", outdir,
               "-seed", str(seed), "-tier", tier, "-corpus", os.path.join(VERIF, "corpus", pid)]
        rc, out = vcheck.run(cmd, env=vcheck.goenv(), timeout=6 * 3600)
        if rc != 0:
            rep.add_broken("harness failed", out[-3000:])
            return rep.finish()
        meta = json.load(open(os.path.join(outdir, "meta.json")))
        # (T)
        status = translated_part(rep, outdir, tier)
        rep.coverage["translated_forms"] = status
        rep.coverage["translated_ir_eq"] = sum(1 for s in status.values() if s == "eq")
        rep.coverage["evaluations"] = rep.coverage.get("evaluations", 0) + len(status)
        # (B)
        nb = len(rep.broken)
        vcheck.classify(rep, pid, pid, meta, outdir)
        unknown = [b for b in rep.broken[nb:] if b["what"] == "observation not understood by the evaluator"]
        if unknown:
            # keep one representative instead of hundreds of identical entries
            rep.broken = [b for b in rep.broken if b not in unknown[1:]]
            rep.notes.append("%d hist observations were not understood by modeleval %s (evaluator missing or format mismatch)" % (len(unknown), pid))
        rep.coverage["rule"] = (rep.coverage.get("rule", "") +
                                "; plus one evaluation per generated form: translated IR = expected IR, decided by the Coq kernel")
        return rep.finish()
    finally:
        shutil.rmtree(scratch, ignore_errors=True)
