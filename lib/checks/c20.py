"""C20 (deriveDo): the standard flow (theorems, harness, evaluator) plus the (T) step:
every Translated_*.v the harness generated from the freshly emitted deriveDo is compiled against the
built development; its only goal is `prog_of_sexp translated = Some (expected n)` (vm_compute).
A translation that fails, or a program that is no longer the expected one, is a broken
correspondence: the search observations (explorer over the TRANSLATED program) and the real-runtime
battery, both classified by the standard flow, decide whether a failing schedule/input exists."""
import json
import os

import vcheck


def extra(rep, meta, scratch, gd, hb):
    outdir = os.path.join(scratch, "out")
    path = os.path.join(outdir, "c20.translate.json")
    if not os.path.exists(path):
        if not (meta.get("direct") or []):
            rep.add_broken("the harness produced no translation of deriveDo", {})
        return
    trs = json.load(open(path))
    checked = []
    for t in trs:
        if not t["ok"]:
            rep.add_broken("emitted %s is outside the shape the goroutine IR covers: %s" % (t["name"], t["reason"]),
                           {"function": t["name"], "reason": t["reason"]})
            continue
        rc, out = vcheck.run(["coqc", "-R", os.path.join(vcheck.COQ, "theories"), "Verif",
                              "-o", os.path.join(scratch, os.path.basename(t["vfile"]) + "o"), t["vfile"]], timeout=600)
        if rc != 0:
            rep.add_broken("translated %s is not `expected %d` (the program the C20 theorems are about)" % (t["name"], t["n"]),
                           {"function": t["name"], "translated": t["sexp"], "coq": out[-1500:],
                            "vfile": open(t["vfile"]).read()[:4000]})
        else:
            checked.append("%s = expected %d" % (t["name"], t["n"]))
    rep.coverage["translated_equal_expected"] = checked
    rep.coverage["evaluations"] = rep.coverage.get("evaluations", 0) + len(trs)


def check(pid, tier, seed):
    return vcheck.standard_check(pid, tier, seed, extra=extra)
