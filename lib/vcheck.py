#!/usr/bin/env python3
"""vcheck — orchestration shared by every property check (see DESIGN.md §4, §5).

check <ID> <quick|thorough>:
  1. Coq: `make` (no-op when current), then re-compile Properties/<ID>.v into a scratch
     directory and read its Print Assumptions output  -> obligations / discharged.
  2. build modeleval (extracted evaluator), goderive from /repo's working tree, harness.
  3. run the harness (corpus first, then seeded generation) -> observation files + meta.
  4. modeleval on every observation file -> verdict per line.
  5. classify: violation with replay / broken correspondence (no-failing-input-found) /
     known finding; write evidence/<ID>.json; exit status.
"""
import fcntl
import json
import os
import re
import shutil
import subprocess
import sys
import tempfile
import time

VERIF = os.path.dirname(os.path.dirname(os.path.abspath(__file__)))
REPO = os.environ.get("VERIF_REPO", "/repo")
COQ = os.path.join(VERIF, "coq")
NPROC = str(os.cpu_count() or 4)

TRUSTED_BASE = [
    "Coq 8.16.1 kernel (coqc, full .vo build; vm_compute used in *_refuted witnesses and finite side conditions; no native_compute)",
    "axioms: none (Print Assumptions of every property theorem must say 'Closed under the global context')",
    "extraction: ExtrOcamlBasic only (bool, option, unit, list, prod, sumbool, sumor -> OCaml; andb/orb inlined); nat/N/Z/positive/string stay Coq datatypes; no Extract Constant/Inductive of our own",
    "ocaml/main.ml glue: s-expression tokeniser, number and string conversion, printing (unverified; a seeded sample of the observation lines of every run — 5% in the thorough tier — is re-evaluated by coqc with vm_compute and must give the extracted evaluator's verdicts: coverage.reevaluated_in_coqc)",
    "harness (Go): package generators, drivers, serialisation, canonicalisation (unverified)",
    "modelled, not verified: the Go compiler/runtime/reflect, go/types, x/tools loader, go/format, fmt, sort, strings, bytes, OS file API; the hand transcription of each plugin into Gallina (checked by the correspondence run)",
]


def goenv():
    env = dict(os.environ)
    for k in ("GOTOOLCHAIN", "GOSUMDB", "GOPATH"):
        env.pop(k, None)
    env["GOFLAGS"] = "-mod=mod"
    env["GOPROXY"] = "off"
    env["GO111MODULE"] = "on"
    return env


def run(cmd, cwd=None, timeout=3600, env=None, stdin=None):
    p = subprocess.run(cmd, cwd=cwd, timeout=timeout, env=env, input=stdin,
                       stdout=subprocess.PIPE, stderr=subprocess.STDOUT, text=True)
    return p.returncode, p.stdout


class Lock:
    def __init__(self, name):
        self.path = os.path.join(VERIF, ".locks")
        os.makedirs(self.path, exist_ok=True)
        self.f = open(os.path.join(self.path, name), "w")

    def __enter__(self):
        fcntl.flock(self.f, fcntl.LOCK_EX)
        return self

    def __exit__(self, *a):
        fcntl.flock(self.f, fcntl.LOCK_UN)
        self.f.close()


def write_coqproject():
    """_CoqProject lists every .v under theories/ (sorted); regenerated so that adding a file needs no edit."""
    files = []
    for root, dirs, fs in os.walk(os.path.join(COQ, "theories")):
        dirs.sort()
        for f in sorted(fs):
            if f.endswith(".v"):
                files.append(os.path.relpath(os.path.join(root, f), COQ))
    text = "-R theories Verif\n" + "\n".join(sorted(files)) + "\n"
    path = os.path.join(COQ, "_CoqProject")
    old = open(path).read() if os.path.exists(path) else ""
    if old != text:
        open(path, "w").write(text)
        return True
    return False


def ensure_coq():
    """Full .vo build of the development (no -vos). Returns (ok, log)."""
    with Lock("coq"):
        changed = write_coqproject()
        if changed or not os.path.exists(os.path.join(COQ, "Makefile")):
            rc, out = run(["coq_makefile", "-f", "_CoqProject", "-o", "Makefile"], cwd=COQ)
            if rc != 0:
                return False, out
        rc, out = run(["make", "-j" + NPROC], cwd=COQ, timeout=3000)
        return rc == 0, out


def ensure_modeleval():
    with Lock("ocaml"):
        exe = os.path.join(VERIF, "ocaml", "modeleval")
        newest = 0
        for root, _, files in os.walk(os.path.join(COQ, "theories")):
            for f in files:
                if f.endswith(".vo"):
                    newest = max(newest, os.path.getmtime(os.path.join(root, f)))
        for f in ("main.ml", "build.sh"):
            newest = max(newest, os.path.getmtime(os.path.join(VERIF, "ocaml", f)))
        newest = max(newest, os.path.getmtime(os.path.join(COQ, "extract", "Extract.v")))
        if os.path.exists(exe) and os.path.getmtime(exe) >= newest:
            return True, ""
        rc, out = run([os.path.join(VERIF, "ocaml", "build.sh")], timeout=1200)
        return rc == 0, out


def check_properties_file(pid, scratch, extra_R=None):
    """Compile Properties/<pid>.v afresh; return (theorems, discharged, axioms, log)."""
    src = os.path.join(COQ, "theories", "Properties", pid + ".v")
    text = open(src).read()
    theorems = re.findall(r"^Theorem\s+(\w+)", text, re.M)
    printed = re.findall(r"^Print Assumptions\s+(\w+)\.", text, re.M)
    outvo = os.path.join(scratch, pid + ".vo")
    cmd = ["coqc", "-R", os.path.join(COQ, "theories"), "Verif"]
    if extra_R:
        cmd += ["-R", extra_R[0], extra_R[1]]
    cmd += ["-o", outvo, src]
    rc, out = run(cmd, timeout=1800)
    if rc != 0:
        return theorems, [], ["<does not compile>"], out
    # one block per Print Assumptions, in order
    blocks = re.split(r"(?=Closed under the global context|Axioms:)", out)
    blocks = [b for b in blocks if b.startswith("Closed under") or b.startswith("Axioms:")]
    discharged, axioms = [], []
    for name, b in zip(printed, blocks):
        if b.startswith("Closed under"):
            discharged.append(name)
        else:
            axioms.append(name + ": " + " ".join(b.split())[:300])
    missing = [t for t in theorems if t not in printed]
    for t in missing:
        axioms.append(t + ": no Print Assumptions")
    if len(blocks) != len(printed):
        axioms.append("Print Assumptions output count mismatch")
    return theorems, discharged, axioms, out


def build_go(scratch, need_harness=True, tags="verif"):
    """Build goderive from /repo's working tree (no tag) and the harness (with the verif tag)."""
    env = goenv()
    gd = os.path.join(scratch, "goderive")
    rc, out = run(["go", "build", "-o", gd, "."], cwd=REPO, env=env, timeout=1800)
    if rc != 0:
        return None, None, "go build of /repo failed:\n" + out
    hb = None
    if need_harness:
        # private copy of the harness module whose go.mod points at the repository under test
        hdir = os.path.join(scratch, "harness-src")
        shutil.copytree(os.path.join(VERIF, "harness"), hdir)
        open(os.path.join(hdir, "go.mod"), "w").write(
            "module verifharness\n\ngo 1.24\n\nrequire github.com/awalterschulze/goderive v0.0.0\n\n"
            "replace github.com/awalterschulze/goderive => %s\n" % REPO)
        shutil.copyfile(os.path.join(REPO, "go.sum"), os.path.join(hdir, "go.sum"))
        hb = os.path.join(scratch, "harness")
        rc, out = run(["go", "build", "-tags", tags, "-o", hb, "./cmd/harness"], cwd=hdir, env=env, timeout=1800)
        if rc != 0:
            return gd, None, "go build of the harness failed (hooks or API of /repo changed?):\n" + out
    return gd, hb, ""


# ---- re-evaluation of a sample of the observations inside coqc (vm_compute on the same Gallina
# definitions the extracted evaluator was produced from): cross-checks extraction + the OCaml glue.
TIER = "quick"
SEED = 1
RECHECK_POOL = []   # (prop, observation line, verdict dict)


def _sexp_tokens(s):
    out, i, n = [], 0, len(s)
    while i < n:
        c = s[i]
        if c in " \t":
            i += 1
        elif c in "()":
            out.append(c)
            i += 1
        else:
            j = i
            while j < n and s[j] not in " \t()":
                j += 1
            out.append(s[i:j])
            i = j
    return out


def sexp_to_coq(line):
    """The observation line as a Coq term of type sexp (same token rules as ocaml/main.ml)."""
    toks = _sexp_tokens(line)
    pos = 0

    def atom(t):
        if re.fullmatch(r"-?[0-9]+", t):
            return "Num (%s)%%Z" % t
        return 'Sym "%s"' % t.replace('"', '""')

    def parse():
        nonlocal pos
        t = toks[pos]
        pos += 1
        if t == "(":
            items = []
            while toks[pos] != ")":
                items.append(parse())
            pos += 1
            return "L [" + "; ".join(items) + "]"
        if t == ")":
            raise ValueError("unbalanced")
        return atom(t)
    term = parse()
    if pos != len(toks):
        raise ValueError("trailing tokens")
    return term


def recheck_in_coq(pool, scratch):
    """Returns (number re-evaluated, list of mismatch descriptions)."""
    if not pool:
        return 0, []
    bad = []
    done = 0
    SH = 250
    for k in range(0, len(pool), SH):
        shard = pool[k:k + SH]
        items = []
        for (prop, line, v) in shard:
            b = lambda x: "true" if x else "false"
            items.append('(%s, "%s", (%s, %s, %s, %s), "%s")' % (
                sexp_to_coq(line), prop, b(v["known"]), b(v["model_ok"]), b(v["spec_ok"]), b(v["guard"]),
                v["tag"].replace('"', '""')))
        src = ("From Verif Require Import Base Sexp Eval.\nOpen Scope string_scope.\n"
               "Definition cases : list (sexp * string * (bool * bool * bool * bool) * string) := [\n" + ";\n".join(items) + "].\n"
               "Definition agrees (c : sexp * string * (bool * bool * bool * bool) * string) : bool :=\n"
               "  let '(e, prop, (k, m, sp, g), tag) := c in let v := eval_obs prop e in\n"
               "  Bool.eqb (v_known v) k && (negb k || (Bool.eqb (v_model_ok v) m && Bool.eqb (v_spec_ok v) sp && Bool.eqb (v_guard v) g && String.eqb (v_tag v) tag)).\n"
               "Fixpoint bad (i : nat) (l : list (sexp * string * (bool * bool * bool * bool) * string)) : list nat :=\n"
               "  match l with [] => [] | c :: r => if agrees c then bad (S i) r else i :: bad (S i) r end.\n"
               "Definition M := Eval vm_compute in bad 0 cases.\nPrint M.\n")
        f = os.path.join(scratch, "Recheck%d.v" % (k // SH))
        open(f, "w").write(src)
        rc, out = run(["coqc", "-R", os.path.join(COQ, "theories"), "Verif", "-o", f[:-2] + ".vo", f], timeout=3600)
        m = re.search(r"M\s*=\s*\[(.*?)\]", out, re.S)
        if rc != 0 or not m:
            bad.append({"what": "re-evaluation file does not compile", "log": out[-1500:]})
            continue
        done += len(shard)
        idx = [int(x) for x in re.findall(r"\d+", m.group(1))]
        for i in idx[:5]:
            prop, line, v = shard[i]
            bad.append({"what": "coqc (vm_compute) and the extracted evaluator disagree on this observation", "prop": prop,
                        "observation": line[:2000], "extracted_verdict": v})
    return done, bad


def modeleval(pid, obs_path):
    res = _modeleval(pid, obs_path)
    try:
        import random
        rnd = random.Random("%d/%s/%s" % (SEED, pid, os.path.basename(obs_path)))
        lines = open(obs_path).read().splitlines()
        want = 12 if TIER == "quick" else max(40, len(res) // 20)
        have = sum(1 for x in RECHECK_POOL if x[0] == pid)
        cap = 36 if TIER == "quick" else 3000
        for v in rnd.sample(res, min(want, len(res), max(0, cap - have))):
            if v["line"] - 1 < len(lines) and len(lines[v["line"] - 1]) < 20000:
                RECHECK_POOL.append((pid, lines[v["line"] - 1], v))
    except Exception as e:  # sampling must never break a check
        RECHECK_POOL.append((pid, "(sampling-error %s)" % type(e).__name__, {"known": False, "model_ok": False, "spec_ok": False, "guard": False, "tag": ""}))
    return res


def _modeleval(pid, obs_path):
    exe = os.path.join(VERIF, "ocaml", "modeleval")
    with open(obs_path) as f:
        p = subprocess.run([exe, pid], stdin=f, stdout=subprocess.PIPE, stderr=subprocess.PIPE, text=True, timeout=3600)
    if p.returncode != 0:
        raise RuntimeError("modeleval failed: " + p.stderr[:2000])
    res = []
    for line in p.stdout.splitlines():
        parts = line.split("\t")
        if len(parts) < 7:
            continue
        res.append({"line": int(parts[0]), "known": parts[1] == "1", "model_ok": parts[2] == "1",
                    "spec_ok": parts[3] == "1", "guard": parts[4] == "1", "tag": parts[5], "model": parts[6]})
    return res


def load_known(pid):
    """Open findings of this property from known_findings.json (committed; never written at run time)."""
    path = os.path.join(VERIF, "known_findings.json")
    if not os.path.exists(path):
        return []
    found = list(json.load(open(path)).get("findings", []))
    return [f for f in found if f.get("property") == pid and f.get("status", "open") == "open"]


def load_corpus(pid):
    d = os.path.join(VERIF, "corpus", pid)
    return sorted(os.path.join(d, f) for f in os.listdir(d)) if os.path.isdir(d) else []


class Report:
    """Collects the outcome of one check run and writes evidence + exit status."""

    def __init__(self, pid, tier, seed):
        self.pid, self.tier, self.seed = pid, tier, seed
        self.t0 = time.time()
        self.violations = []      # dicts with replay content
        self.broken = []          # broken correspondence / proof (no failing input)
        self.known_hits = {}      # finding id -> description
        self.coverage = {}
        self.assumptions = []
        self.notes = []
        self.known = load_known(pid)

    def known_match(self, cls, text=""):
        for f in self.known:
            if f.get("class") == cls:
                pat = f.get("match")
                if pat and not re.search(pat, text, re.S):
                    continue
                return f
        return None

    def add_violation(self, kind, what, detail):
        self.violations.append({"kind": kind, "what": what, "detail": detail})

    def add_broken(self, what, detail):
        self.broken.append({"what": what, "detail": detail})

    def finish(self):
        global RECHECK_POOL
        if RECHECK_POOL:
            d = tempfile.mkdtemp(prefix="verif-recheck-", dir=os.environ.get("VERIF_SCRATCH", "/tmp"))
            try:
                n, bad = recheck_in_coq(RECHECK_POOL, d)
            finally:
                shutil.rmtree(d, ignore_errors=True)
            RECHECK_POOL = []
            self.coverage["reevaluated_in_coqc"] = n
            for b in bad:
                self.add_broken("extracted evaluator vs coqc", b)
        wall = time.time() - self.t0
        replay_dir = os.path.join(VERIF, "replay", self.pid)
        # replay files of an earlier run with the same seed and tier are stale once this run has its own verdict
        if os.path.isdir(replay_dir):
            for old in os.listdir(replay_dir):
                if old.startswith("%d-%s-" % (self.seed, self.tier)):
                    try:
                        os.remove(os.path.join(replay_dir, old))
                    except OSError:
                        pass
        lines = []
        rc = 0
        nviol = 0
        if self.violations:
            os.makedirs(replay_dir, exist_ok=True)
            for i, v in enumerate(self.violations[:5]):
                path = os.path.join(replay_dir, "%d-%s-%d.json" % (self.seed, self.tier, i))
                v2 = dict(v)
                v2["property"] = self.pid
                v2["seed"] = self.seed
                v2["replay_cmd"] = "VERIF_SEED=%d bin/check %s %s" % (self.seed, self.pid, self.tier)
                json.dump(v2, open(path, "w"), indent=1)
                lines.append("VIOLATION property=%s replay=%s" % (self.pid, path))
            nviol = len(self.violations)
            rc = 1
        elif self.broken:
            os.makedirs(replay_dir, exist_ok=True)
            path = os.path.join(replay_dir, "%d-%s-broken.json" % (self.seed, self.tier))
            json.dump({"property": self.pid, "seed": self.seed, "kind": "broken-correspondence-or-proof",
                       "broken": self.broken[:20],
                       "note": "the model/theorem no longer matches the code and no input on which the property itself fails was found"},
                      open(path, "w"), indent=1)
            lines.append("VIOLATION property=%s replay=%s no-failing-input-found" % (self.pid, path))
            nviol = 1
            rc = 1
        for fid, desc in sorted(self.known_hits.items()):
            lines.append("KNOWN-FINDING: property=%s %s" % (self.pid, desc))
        for f in self.known:
            if f["id"] not in self.known_hits:
                self.notes.append("known finding %s not exercised/reproduced in this run" % f["id"])
        ev = {
            "property_id": self.pid, "tier": self.tier, "seed": self.seed, "level": "proof",
            "coverage": self.coverage, "assumptions": self.assumptions, "wall_s": round(wall, 2),
            "violations": nviol,
        }
        ev["coverage"].setdefault("trusted_base", TRUSTED_BASE)
        ev["coverage"]["known_findings_reproduced"] = sorted(self.known_hits.keys())
        ev["coverage"]["notes"] = self.notes
        os.makedirs(os.path.join(VERIF, "evidence"), exist_ok=True)
        json.dump(ev, open(os.path.join(VERIF, "evidence", self.pid + ".json"), "w"), indent=1)
        for l in lines:
            print(l)
        print("check %s %s seed=%d: %s in %.1fs (obligations %s/%s, evaluations %s)" % (
            self.pid, self.tier, self.seed, "OK" if rc == 0 else "FAIL", wall,
            self.coverage.get("discharged"), self.coverage.get("obligations"), self.coverage.get("evaluations")))
        return rc


def coqchk(rep):
    """Independent re-check of every compiled file with coqchk (once per thorough run of C01)."""
    rc, out = run([os.path.join(VERIF, "bin", "coqchk-all")], timeout=3 * 3600)
    summary = " ".join(out[out.find("CONTEXT SUMMARY"):].split())[:600] if "CONTEXT SUMMARY" in out else out[-600:]
    rep.coverage["coqchk"] = {"cmd": "bin/coqchk-all  (coqchk -silent -o over every .vo of the development)", "exit": rc, "summary": summary}
    if rc != 0:
        rep.add_broken("coqchk does not accept the development or reports axioms", summary)


def standard_check(pid, tier, seed, harness_args=None, eval_prop=None, extra=None):
    """The common flow: theorems + harness + evaluator."""
    rep = Report(pid, tier, seed)
    scratch = tempfile.mkdtemp(prefix="verif-%s-" % pid.lower(), dir=os.environ.get("VERIF_SCRATCH", "/tmp"))
    try:
        ok, log = ensure_coq()
        if not ok:
            rep.add_broken("Coq development does not build", log[-3000:])
            rep.coverage.update({"obligations": 1, "discharged": 0, "checker_cmd": "make -C coq"})
            return rep.finish()
        theorems, discharged, axioms, plog = check_properties_file(pid, scratch)
        rep.coverage.update({
            "obligations": len(theorems), "discharged": len(discharged),
            "checker_cmd": "make -C /verif/coq && coqc -R /verif/coq/theories Verif /verif/coq/theories/Properties/%s.v  (Print Assumptions under every theorem)" % pid,
            "theorems": theorems,
        })
        if axioms or len(discharged) != len(theorems):
            rep.add_broken("property theorems not all closed under the global context", {"axioms": axioms, "log": plog[-2000:]})
        ok, log = ensure_modeleval()
        if not ok:
            rep.add_broken("extracted evaluator does not build", log[-3000:])
            return rep.finish()
        gd, hb, err = build_go(scratch)
        if err:
            rep.add_broken("build failure", err[-3000:])
            return rep.finish()
        outdir = os.path.join(scratch, "out")
        work = os.path.join(scratch, "work")
        cmd = [hb, "-prop", pid, "-goderive", gd, "-repo", REPO, "-verif", VERIF, "-work", work, "-out", outdir,
               "-seed", str(seed), "-tier", tier, "-corpus", os.path.join(VERIF, "corpus", pid)]
        cmd += harness_args or []
        rc, out = run(cmd, env=goenv(), timeout=6 * 3600)
        if rc != 0:
            rep.add_broken("harness failed", out[-3000:])
            return rep.finish()
        meta = json.load(open(os.path.join(outdir, "meta.json")))
        classify(rep, pid, eval_prop or pid, meta, outdir)
        if extra:
            extra(rep, meta, scratch, gd, hb)
        if (tier == "thorough" and pid == "C01") or os.environ.get("VERIF_COQCHK") == "1":
            coqchk(rep)
        return rep.finish()
    finally:
        shutil.rmtree(scratch, ignore_errors=True)


def classify(rep, pid, eval_prop, meta, outdir):
    evaluations = 0
    tags = {}
    samples = list(meta.get("samples") or [])
    outside_guard = 0
    for d in meta.get("direct") or []:
        text = (d.get("what", "") + "\n" + d.get("output", ""))
        kf = rep.known_match(d["class"], text)
        if kf:
            rep.known_hits[kf["id"]] = kf["id"] + " " + kf["what"]
        else:
            rep.add_violation("direct", d["what"], d)
    for obs in meta.get("obs_files") or []:
        lines = open(obs).read().splitlines()
        verdicts = modeleval(eval_prop, obs)
        for v in verdicts:
            evaluations += 1
            src = lines[v["line"] - 1] if v["line"] - 1 < len(lines) else "?"
            if not v["known"]:
                rep.add_broken("observation not understood by the evaluator", {"obs": src[:2000], "file": os.path.basename(obs)})
                continue
            tags[v["tag"] + ("" if v["guard"] else " [outside guard]")] = tags.get(v["tag"] + ("" if v["guard"] else " [outside guard]"), 0) + 1
            if not v["guard"]:
                outside_guard += 1
            if v["guard"] and not v["spec_ok"]:
                rep.add_violation("behavioural", "real code violates the specification on this input (tag %s)" % v["tag"],
                                  {"observation": src[:4000], "expected_model": v["model"][:4000], "model_agrees_with_real": v["model_ok"],
                                   "obs_file": os.path.basename(obs)})
            elif not v["model_ok"]:
                if v["tag"].startswith("known:"):
                    # inside a known-finding class the real code must still behave as the model says
                    rep.add_violation("behavioural", "real code differs from the model inside known-finding class %s" % v["tag"],
                                      {"observation": src[:4000], "expected_model": v["model"][:4000]})
                else:
                    rep.add_broken("real != model although the specification holds on this input (tag %s)" % v["tag"],
                                   {"observation": src[:2000], "expected_model": v["model"][:2000]})
            elif v["tag"].startswith("known:") and not v["spec_ok"]:
                cls = v["tag"][len("known:"):].split("/")[0]
                kf = rep.known_match(cls, src)
                if kf:
                    rep.known_hits[kf["id"]] = kf["id"] + " " + kf["what"]
                else:
                    rep.add_violation("behavioural", "specification fails in class %s which is not a listed known finding" % cls,
                                      {"observation": src[:4000], "expected_model": v["model"][:4000]})
    cov = rep.coverage
    cov["evaluations"] = cov.get("evaluations", 0) + evaluations + (meta.get("direct_cases") or 0)
    cov["distinct_nontrivial"] = cov.get("distinct_nontrivial", 0) + len(tags)
    cov["rule"] = ("cases = observation lines (one real call / operation sequence each) evaluated by the extracted model and the "
                   "specification; distinct_nontrivial = number of distinct model-arm tags hit (a tag names the model branch / input class), "
                   "not the number of calls")
    cov["tags"] = dict(sorted(tags.items()))
    cov["outside_guard"] = outside_guard
    cov["samples"] = samples[:8] if samples else ["(none)"]
    cov["packages"] = meta.get("packages")
    cov["goderive_runs"] = meta.get("goderive_runs")
    cov["input_distribution"] = meta.get("distribution")
    if meta.get("notes"):
        rep.notes += meta["notes"]


def main(argv, table):
    if len(argv) < 3:
        print("usage: check <ID> <quick|thorough>")
        return 2
    pid, tier = argv[1], argv[2]
    seed = int(os.environ.get("VERIF_SEED", "1") or "1")
    if tier == "--replay":
        # a replay file records seed and tier; re-run that check
        rp = json.load(open(argv[3]))
        seed = int(rp.get("seed", seed))
        m = re.search(r"bin/check \S+ (quick|thorough)", rp.get("replay_cmd", ""))
        tier = m.group(1) if m else "quick"
    if tier not in ("quick", "thorough"):
        print("usage: check <ID> <quick|thorough>")
        return 2
    global TIER, SEED
    TIER, SEED = tier, seed
    mod = os.path.join(VERIF, "lib", "checks", pid.lower() + ".py")
    if os.path.exists(mod):
        import importlib.util
        spec = importlib.util.spec_from_file_location("check_" + pid.lower(), mod)
        m = importlib.util.module_from_spec(spec)
        spec.loader.exec_module(m)
        return m.check(pid, tier, seed)
    if pid not in table:
        print("unknown property", pid)
        return 2
    return table[pid](pid, tier, seed)
